(** Model of p2p.ExchangeServer.requestHandler (p2p/server.go), from the decoded
    request inwards, over an abstract view of the header.Store it was given.

    The store view is what store.Store (store/store.go) exposes to the server:
    the contiguous run Tail..Head ([s_chain], lowest first; [] = empty store)
    plus headers that are stored but not part of that run ([s_extra]: appended
    above a gap).  [Head]/[Tail]/[HasAt]/[Get]/[GetRange] are re-stated from the
    code; every call the server makes on the store is recorded, [GetRange] with
    the heights it touches (store.getRangeByHeight reads the header at [to-1] by
    height and then walks DOWN through LastHeader hash links).

    Store failures are an input: a mode ([fault]: none / the call blocks until
    the request context's deadline (RequestTimeout) and returns the context's
    error / the call fails at once with some other error) PER KIND of
    context-taking store call ([kfault]: Head, GetRange, Get may each have their
    own mode; HasAt returns a bare bool and is not faulted).  [handle f] with a
    single [fault] is the special case "the same mode for every call kind". *)
From GH Require Import Base.Prelude.

Definition max_req : N := 64.            (* header.MaxRangeRequestSize *)
(** make([]H, n) panics ("len out of range") above this many elements *)
Definition alloc_limit : N := 35184372088832.   (* 2^45 *)

Record store := Store { s_chain : list hdr; s_extra : list hdr }.

Inductive fault := FNone | FSlow | FErr.

Inductive err :=
| ENotFound        (* header.ErrNotFound (possibly wrapped) *)
| EEmptyStore      (* header.ErrEmptyStore *)
| ERangeMixUp      (* header.ErrRangeMixUp *)
| ELimit           (* header.ErrHeadersLimitExceeded *)
| EDeadline        (* context.DeadlineExceeded *)
| EInvalidRange    (* store: invalid range(from,to) *)
| EOther.

Inductive req :=
| ROrigin (origin amount : N)      (* HeaderRequest_Origin, Amount *)
| RHash (id amount : N)            (* HeaderRequest_Hash (hash numbered by the harness), Amount *)
| RInvalid.                        (* no Data set / bytes that do not decode *)

Inductive reply :=
| Reset                            (* stream.Reset() *)
| NotFound                         (* one frame: NOT_FOUND, empty body *)
| Ok (l : list hdr)                (* one OK frame per header, then Close *)
| Panic.

(** calls on the header.Store handed to NewExchangeServer *)
Inductive call :=
| CHasAt (n : N)
| CHead
| CGet (id : N)
| CGetRange (from to : N) (reads : list N) (returned : N).

Inductive outcome {A : Type} := Ret (a : A) | Fail (e : err) | Crash.
Arguments outcome : clear implicits.

(** ** the store (store/store.go) *)

Definition all_hdrs (st : store) : list hdr := s_chain st ++ s_extra st.
Definition head_of (st : store) : option hdr :=
  match s_chain st with [] => None | h :: r => Some (last r h) end.
Definition tail_of (st : store) : option hdr := hd_error (s_chain st).

(** Store.Get: by hash, anywhere in the store *)
Definition get_hash (st : store) (id : N) : option hdr :=
  find (fun h => h_id h =? id) (all_hdrs st).
(** Store.getByHeight *)
Definition get_height (st : store) (n : N) : option hdr :=
  find (fun h => h_height h =? n) (all_hdrs st).

(** Store.HasAt *)
Definition has_at (st : store) (n : N) : bool :=
  if n =? 0 then false
  else match head_of st, tail_of st with
       | Some hd, Some tl => (n <=? h_height hd) && (h_height tl <=? n)
       | _, _ => false
       end.

(** the loop of getRangeByHeight: [k] more headers below [h]; result lowest
    first; second component = heights touched (read or looked for) *)
Fixpoint walk_down (st : store) (k : nat) (h : hdr) : option (list hdr) * list N :=
  match k with
  | O => (Some [h], [])
  | S k' =>
    match get_hash st (h_prev h) with
    | None => (None, [sub64 (h_height h) 1])
    | Some p =>
      let '(r, rd) := walk_down st k' p in
      (option_map (fun l => l ++ [h]) r, h_height p :: rd)
    end
  end.

(** Store.GetRange(from, to) = getRangeByHeight *)
Definition get_range (st : store) (from to : N) : outcome (list hdr) * list N :=
  if to <=? from then (Fail EInvalidRange, [])
  else
    match get_height st (to - 1) with
    | None => (Fail ENotFound, [to - 1])
    | Some h =>
      if alloc_limit <? to - from then (Crash, [to - 1])
      else
        let '(r, rd) := walk_down st (N.to_nat (to - from - 1)) h in
        (match r with Some l => Ret l | None => Fail ENotFound end, (to - 1) :: rd)
    end.

(** ** what the theorems assume of a store: the invariant store.Store maintains
    (property C04): [s_chain] is a hash-linked run of consecutive heights
    starting at a tail >= 1, the header below the tail is not stored, heights
    fit uint64, and hashes and heights identify stored headers. *)

Definition tail_h (st : store) : N := match tail_of st with Some h => h_height h | None => 0 end.
Definition head_h (st : store) : N := match head_of st with Some h => h_height h | None => 0 end.

Fixpoint linked (prev : option N) (n : N) (l : list hdr) : bool :=
  match l with
  | [] => true
  | h :: r =>
    (h_height h =? n)
    && match prev with None => true | Some p => h_prev h =? p end
    && linked (Some (h_id h)) (n + 1) r
  end.

Fixpoint nodupb (l : list N) : bool :=
  match l with
  | [] => true
  | x :: r => negb (existsb (N.eqb x) r) && nodupb r
  end.

Definition wf_core (st : store) : bool :=
  linked None (tail_h st) (s_chain st)
  && match s_chain st with
     | [] => true
     | t :: _ => (1 <=? h_height t) && forallb (fun h => negb (h_id h =? h_prev t)) (all_hdrs st)
     end
  && forallb (fun h => h_height h <? two64) (all_hdrs st)
  && nodupb (map h_id (all_hdrs st))
  && nodupb (map h_height (all_hdrs st)).

(** a stored header whose LastHeader is the hash of a stored header sits exactly one above it
    (also above a gap, where [linked] says nothing) *)
Definition links_ok (st : store) : bool :=
  forallb (fun h => forallb (fun p => negb (h_prev h =? h_id p) || (h_height h =? h_height p + 1))
                            (all_hdrs st)) (all_hdrs st).

Definition wf_storeb (st : store) : bool :=
  wf_core st && forallb (fun h => 1 <=? h_height h) (all_hdrs st) && links_ok st.

Definition wf_store (st : store) : Prop := wf_storeb st = true.

(** the store's headers at heights o, o+1, ..., o+k-1 (for tail <= o) *)
Definition seg (st : store) (o : N) (k : nat) : list hdr :=
  firstn k (skipn (N.to_nat (o - tail_h st)) (s_chain st)).

(** top, top-1, ... (n heights) *)
Fixpoint down_from (top : N) (n : nat) : list N :=
  match n with O => [] | S n' => top :: down_from (top - 1) n' end.

(** ** the server (p2p/server.go) *)

(** kinds of store calls; a failure mode per kind *)
Inductive ckind := KHasAt | KHead | KTail | KGetRange | KGet.
Definition kfault := ckind -> fault.
(** one mode for every call kind *)
Definition same (f : fault) : kfault := fun _ => f.

Definition fault_err (f : fault) : err := match f with FSlow => EDeadline | _ => EOther end.

Definition call_head (f : fault) (st : store) : outcome hdr :=
  match f with
  | FNone => match head_of st with Some h => Ret h | None => Fail EEmptyStore end
  | _ => Fail (fault_err f)
  end.

Definition call_get_range (f : fault) (st : store) (from to : N) : outcome (list hdr) * list call :=
  match f with
  | FNone =>
    let '(r, rd) := get_range st from to in
    (r, [CGetRange from to rd (match r with Ret l => N.of_nat (length l) | _ => 0 end)])
  | _ => (Fail (fault_err f), [CGetRange from to [] 0])
  end.

(** handleHeadRequest *)
Definition handle_head (f : fault) (st : store) : outcome (list hdr) * list call :=
  (match call_head f st with Ret h => Ret [h] | Fail e => Fail e | Crash => Crash end, [CHead]).

(** the tail of handleRangeRequest: GetRange and its error mapping *)
Definition serve_range (f : fault) (st : store) (from to : N) (pre : list call)
  : outcome (list hdr) * list call :=
  let '(r, cs) := call_get_range f st from to in
  (match r with
   | Fail EDeadline => Fail ENotFound
   | x => x
   end, pre ++ cs).

(** handleRangeRequest(from, to); Head and GetRange each fail in their own mode *)
Definition handle_range_k (kf : kfault) (st : store) (from to : N) : outcome (list hdr) * list call :=
  if to <=? from then (Fail ERangeMixUp, [])
  else if from =? 0 then handle_head (kf KHead) st
  else if max_req <? sub64 to from then (Fail ELimit, [])
  else
    let top := sub64 to 1 in
    if has_at st top then serve_range (kf KGetRange) st from to [CHasAt top]
    else
      let pre := [CHasAt top; CHead] in
      match call_head (kf KHead) st with
      | Fail e => (Fail e, pre)
      | Crash => (Crash, pre)
      | Ret hd =>
        if h_height hd <? from then (Fail ENotFound, pre)
        else if top <=? h_height hd then (Fail ENotFound, pre)
        else serve_range (kf KGetRange) st from (wrap64 (h_height hd + 1)) pre
      end.

Definition handle_range (f : fault) (st : store) (from to : N) : outcome (list hdr) * list call :=
  handle_range_k (same f) st from to.

(** handleRequestByHash *)
Definition handle_hash (f : fault) (st : store) (id : N) : outcome (list hdr) * list call :=
  (match f with
   | FNone => match get_hash st id with Some h => Ret [h] | None => Fail ENotFound end
   | _ => Fail (fault_err f)
   end, [CGet id]).

(** the status switch of requestHandler *)
Definition status (r : outcome (list hdr)) : reply :=
  match r with
  | Ret l => Ok l
  | Fail ENotFound => NotFound
  | Fail _ => Reset
  | Crash => Panic
  end.

(** requestHandler, from the decoded request on *)
Definition handle_k (kf : kfault) (st : store) (rq : req) : reply * list call :=
  match rq with
  | RInvalid => (Reset, [])
  | RHash id _ => let '(r, cs) := handle_hash (kf KGet) st id in (status r, cs)
  | ROrigin o a => let '(r, cs) := handle_range_k kf st o (wrap64 (o + a)) in (status r, cs)
  end.

Definition handle (f : fault) (st : store) (rq : req) : reply * list call := handle_k (same f) st rq.

(** ** the same handler against a store that changes while the request is served

    The server makes its store calls one after the other (HasAt, Head, GetRange;
    Head; Get) and other goroutines (the syncer appending, the pruner deleting)
    may change the store in between.  [env] gives the store content the NEXT call
    sees, as a function of the kinds of the calls that have already returned
    (oldest first): any change at any call boundary is an [env].  Each single
    call reads one content (store.Store serves a call from one read view). *)
Definition env := list ckind -> store.

Definition handle_range_dk (kf : kfault) (e : env) (from to : N) : outcome (list hdr) * list call :=
  if to <=? from then (Fail ERangeMixUp, [])
  else if from =? 0 then handle_head (kf KHead) (e [])
  else if max_req <? sub64 to from then (Fail ELimit, [])
  else
    let top := sub64 to 1 in
    if has_at (e []) top then serve_range (kf KGetRange) (e [KHasAt]) from to [CHasAt top]
    else
      let pre := [CHasAt top; CHead] in
      match call_head (kf KHead) (e [KHasAt]) with
      | Fail x => (Fail x, pre)
      | Crash => (Crash, pre)
      | Ret hd =>
        if h_height hd <? from then (Fail ENotFound, pre)
        else if top <=? h_height hd then (Fail ENotFound, pre)
        else serve_range (kf KGetRange) (e [KHasAt; KHead]) from (wrap64 (h_height hd + 1)) pre
      end.

Definition handle_range_d (f : fault) (e : env) (from to : N) : outcome (list hdr) * list call :=
  handle_range_dk (same f) e from to.

Definition handle_dk (kf : kfault) (e : env) (rq : req) : reply * list call :=
  match rq with
  | RInvalid => (Reset, [])
  | RHash id _ => let '(r, cs) := handle_hash (kf KGet) (e []) id in (status r, cs)
  | ROrigin o a => let '(r, cs) := handle_range_dk kf e o (wrap64 (o + a)) in (status r, cs)
  end.

Definition handle_d (f : fault) (e : env) (rq : req) : reply * list call := handle_dk (same f) e rq.

(** ** projections of the call log *)

(** the range reads: (from, to, heights touched, headers returned) *)
Fixpoint range_calls (cs : list call) : list (N * N * list N * N) :=
  match cs with
  | [] => []
  | CGetRange f t rd n :: r => (f, t, rd, n) :: range_calls r
  | _ :: r => range_calls r
  end.

Fixpoint get_calls (cs : list call) : list N :=
  match cs with
  | [] => []
  | CGet id :: r => id :: get_calls r
  | _ :: r => get_calls r
  end.

(** every height touched by the request, in order *)
Definition heights_read (cs : list call) : list N :=
  concat (map (fun c => snd (fst c)) (range_calls cs)).

(** ** time: "nor hangs beyond its timeouts"

    requestHandler derives ONE context per request, context.WithTimeout(serv.ctx,
    RequestTimeout), and hands it to every store call of the request (HasAt,
    Head, GetRange, Get); the calls are made one after the other on the
    handler's goroutine, so call i+1 starts when call i has returned.

    ASSUMPTION of this small time model (not proved here, it is a property of the
    header.Store given to the server): a store call honours its context, i.e.
    it returns at the latest when the context's deadline passes.  [d c] is the
    time call [c] would take on its own (any N, as large as one likes); with the
    request deadline at [T] (time 0 = creation of the request context) a call
    started at [t] returns at min(t + d c, T).  [finish T d t cs] is the instant
    the last call of the log [cs] returns.  The handler's own computation between
    calls is taken as instantaneous; reading the request and writing the reply
    have their own stream deadlines (ReadDeadline, WriteDeadline) and are not part
    of this model. *)
Fixpoint finish (T : N) (d : call -> N) (t : N) (cs : list call) : N :=
  match cs with
  | [] => t
  | c :: r => finish T d (N.min (t + d c) T) r
  end.

(** the failure mode that applies to a logged call *)
Definition fault_of (kf : kfault) (c : call) : fault :=
  match c with
  | CHasAt _ => FNone
  | CHead => kf KHead
  | CGet _ => kf KGet
  | CGetRange _ _ _ _ => kf KGetRange
  end.

(** durations under the fault modes of the harness: a blocking call never
    returns by itself (it takes at least [T]), the others return at once *)
Definition fault_dur (kf : kfault) (T : N) (c : call) : N :=
  match fault_of kf c with FSlow => T | _ => 0 end.

Definition is_slow (f : fault) : bool := match f with FSlow => true | _ => false end.

(** the exact shapes a request's call log can have *)
Definition log_shape (cs : list call) : bool :=
  match cs with
  | [] | [CHead] | [CGet _] => true
  | [CHasAt _; CHead] | [CHasAt _; CGetRange _ _ _ _] => true
  | [CHasAt _; CHead; CGetRange _ _ _ _] => true
  | _ => false
  end.

Definition is_none (f : fault) : bool := match f with FNone => true | _ => false end.

(** only the last call of a log may be a failing / blocking one: nothing is retried,
    nothing else is asked of the store after a call came back with an error *)
Fixpoint faulty_only_last (kf : kfault) (cs : list call) : bool :=
  match cs with
  | [] => true
  | c :: r => match r with [] => true | _ => is_none (fault_of kf c) && faulty_only_last kf r end
  end.
