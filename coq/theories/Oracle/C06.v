(** Correspondence interface for C06 (restart and crash safety). A case is a
    history (as for C04) plus the recorded write log and, for a set of log
    prefixes, the observations of a fresh Store reopened on that image and
    after appending the continuation of the chain. *)
From Coq Require Import NArith List Bool.
From stdpp Require Import gmap.
From GH Require Import Base.Prelude Model.Store Model.StoreSpec Model.StoreCrash Oracle.StoreCase.
Import ListNotations.
Open Scope N_scope.

Record crash := Crash {
  cr_k : nat; cr_start : bool; cr_p1 : option probe; cr_cont : list N; cr_p2 : option probe }.
Record ccase := CCase {
  cc_case : scase; cc_lens : list nat; cc_log : list wop; cc_crashes : list crash }.

Definition w1_eqb (a b : w1) : bool :=
  match a, b with
  | WPutH i h, WPutH i' h' => (i =? i') && hdr_eqb h h'
  | WDelH i, WDelH i' => i =? i'
  | WPutI n i, WPutI n' i' => (n =? n') && (i =? i')
  | WDelI n, WDelI n' => n =? n'
  | WPutHead i, WPutHead i' => i =? i'
  | WPutTail i, WPutTail i' => i =? i'
  | WDelHead, WDelHead | WDelTail, WDelTail => true
  | _, _ => false
  end.
(** a batch is a set of writes to distinct keys: compare up to order *)
Definition wop_eqb (a b : wop) : bool :=
  Nat.eqb (length a) (length b) && forallb (fun x => existsb (w1_eqb x) b) a && forallb (fun x => existsb (w1_eqb x) a) b.

Definition crash_agrees (c : N -> hdr) (b : N) (log : list wop) (x : crash) : bool :=
  let s1 := reopen b log (cr_k x) in
  cr_start x
  && match cr_p1 x with Some p => model_probe_ok c s1 p | None => true end
  && match cr_cont x, cr_p2 x with
     | _ :: _, Some p => model_probe_ok c (fst (append s1 (map c (cr_cont x)))) p
     | _, _ => true
     end.

Definition agree06 (x : ccase) : bool :=
  let c := chain_of (sc_chain (cc_case x)) in
  let b := sc_batch (cc_case x) in
  let '(ok, s) := model_agrees c (st0 b) (sc_steps (cc_case x)) in
  ok && list_eqb wop_eqb (wlog s) (cc_log x)
  && forallb (crash_agrees c b (cc_log x)) (cc_crashes x).

(** ** the property on the implementation's observations *)

Definition row_found (p : probe) (n : N) (id : option N) : bool :=
  existsb (fun r => (r_n r =? n) && match r_gbh r, id with
                                     | RFound h i, Some i' => (h =? n) && (i =? i')
                                     | RFound h _, None => h =? n
                                     | _, _ => false end) (p_rows p).

Definition crash_ok (b : N) (log : list wop) (x : crash) : bool :=
  let img := image b log (cr_k x) in
  cr_start x
  && match cr_p1 x with
     | None => true
     | Some p =>
       (* Head and Tail, when present, resolve to stored headers *)
       match p_head p with Some (H, i) => row_found p H (Some i) | None => true end
       && match p_tail p with Some (T, i) => row_found p T (Some i) | None => true end
       (* with every height between them retrievable *)
       && match p_head p, p_tail p with
          | Some (H, _), Some (T, _) =>
            (T <=? H) && forallb (fun r => negb ((T <=? r_n r) && (r_n r <=? H)) || row_found p (r_n r) None) (p_rows p)
          | _, _ => true
          end
       (* every header of a committed batch that was not later deleted is retrievable *)
       && forallb (fun r => match d_idx img !! r_n r with
                            | Some id => match d_hdr img !! id with
                                         | Some _ => row_found p (r_n r) (Some id)
                                         | None => true end
                            | None => true end) (p_rows p)
     end
  && match cr_cont x, cr_p2 x with
     | n0 :: r, Some p => match p_head p with Some (H, _) => H =? last r n0 | None => false end
     | _, _ => true
     end.

(** spec state before each step *)
Fixpoint spec_before (s : spec) (steps : list sstep) : list spec :=
  match steps with
  | [] => []
  | x :: r => s :: spec_before (fst (fst (spec_step s x))) r
  end.

(** known finding F11: the crash point lies strictly inside the writes of a head-side DeleteRange *)
Definition inside_head_delete (x : ccase) (k : nat) : bool :=
  let steps := sc_steps (cc_case x) in
  let specs := spec_before spec0 steps in
  let fix go (prev : nat) (steps : list sstep) (specs : list spec) (lens : list nat) :=
    match steps, specs, lens with
    | st :: sr, sp :: pr, l :: lr =>
      (Nat.ltb prev k && Nat.ltb k l &&
       match ss_op st, sHT sp with
       | IDelete from to _ _, Some (T, H) => valid_delete sp from to && negb (from =? T) && (to =? wrap64 (H + 1))
       | _, _ => false
       end) || go l sr pr lr
    | _, _, _ => false
    end in go 0%nat steps specs (cc_lens x).

Definition ok06 (x : ccase) : bool :=
  ok_case (cc_case x)
  && forallb (crash_ok (sc_batch (cc_case x)) (cc_log x)) (cc_crashes x).

Definition class06 (x : ccase) : N :=
  let b := sc_batch (cc_case x) in
  let bad := filter (fun cr => negb (crash_ok b (cc_log x) cr)) (cc_crashes x) in
  if ok_case (cc_case x) && negb (Nat.eqb (length bad) 0) && forallb (fun cr => inside_head_delete x (cr_k cr)) bad then 1 else 0.

Definition chk06 (x : ccase) : bool * bool * N := (agree06 x, ok06 x, class06 x).
