(** Correspondence interface for C17's last clause: a tail-side DeleteRange racing with
    appends at the head (Model/StoreDelConc.v), driven by gates.

    The driver parks the deleter at its datastore writes and inside its OnDelete handler, and the
    flush goroutine of one Append at its datastore calls (advanceHead's last lookup, recedeTail's
    lookup, the batch commit).  A case is the script of what the driver released, in order, with
    what a reader observed after each release; the model runs the same script ([macro]: "this
    actor runs to its next park") and must reproduce every observation, the final probe, the raw
    persisted pointers and the probe after a reopen. *)
From Coq Require Import NArith List Bool.
From stdpp Require Import gmap.
From GH Require Import Base.Prelude Model.Store Model.StoreSpec Model.StoreConc Model.StoreDelConc Oracle.StoreCase.
Import ListNotations.
Open Scope N_scope.

(** what the driver releases *)
Inductive mact :=
| MD          (* the deleter runs to its next park (or to the end, or until it waits for ptrMu) *)
| MF          (* the flush goroutine (a new Append if it is idle) runs to its next park *)
| MFall.      (* ... runs the Append to the end (no parks armed) *)

Record dcase17 := DCase17 {
  dq_ctx : bool;                      (* context-aware datastore flavour *)
  dq_batch : N;
  dq_chain : list hdr;
  dq_init : list N;                   (* one Append before the race ... *)
  dq_presync : bool;                  (* ... followed by Sync or not *)
  dq_from : N;
  dq_to : N;
  dq_queue : list (list N);           (* the racing Appends, in the order they are issued *)
  dq_script : list (mact * option dobs17);   (* releases, with the observation taken afterwards (if any) *)
  dq_final : probe;                   (* after both are done and a Sync *)
  dq_dhead : option N;                (* the raw head / tail keys then *)
  dq_dtail : option N;
  dq_reopen : probe }.                (* after Stop and a new Store over the same datastore *)

(** the deleter is parked before this step *)
Definition dpark (ctxf : bool) (k : dl) : bool :=
  match k with
  | KHand _ _ _ _ => true
  | KDelI _ _ _ _ => negb ctxf        (* the commit of the two deletes of one height *)
  | KCommit wb => ctxf && negb (match wb with [] => true | _ => false end)
  | KPutT _ | KPutH _ => true
  | _ => false
  end.
(** the flush goroutine is parked before this step *)
Definition fpark (f : fl) : bool :=
  match f with FAdv (Some _) | FRec (Some _) | FCommit false _ => true | _ => false end.

Section macro.
Variables (from to : N) (ctxf : bool).

(** the deleter runs: it moves while it can; while it waits for its Sync the flush goroutine moves;
    it stops at a park (after at least one step), at the end, or when it waits for ptrMu *)
Fixpoint macro_d (fuel : nat) (moved : bool) (x : cfg) : cfg :=
  match fuel with
  | O => x
  | S f =>
    if moved && dpark ctxf (c_dl x) then x else
    match dstep_c from to ctxf x with
    | Some y => macro_d f true y
    | None =>
      match c_dl x with
      | KSync | KWait => match fstep_c x with Some y => macro_d f moved y | None => x end
      | _ => x
      end
    end
  end.

Fixpoint macro_f (fuel : nat) (parks : bool) (moved : bool) (x : cfg) : cfg :=
  match fuel with
  | O => x
  | S f =>
    if moved && ((parks && fpark (c_fl x)) || match c_fl x with FIdle => true | _ => false end) then x else
    match fstep_c x with
    | Some y => macro_f f parks true y
    | None => x
    end
  end.

Definition macro (x : cfg) (m : mact) : cfg :=
  match m with
  | MD => macro_d (N.to_nat 4000) false x
  | MF => macro_f 64 true false x
  | MFall => macro_f 64 false false x
  end.

(** both actors to the end *)
Fixpoint finish (fuel : nat) (x : cfg) : cfg :=
  match fuel with
  | O => x
  | S f => match step1 from to ctxf true x with Some y => finish f y | None => x end
  end.
End macro.

Definition dobs17_eqb (a b : dobs17) : bool :=
  let ra := do_r a in let rb := do_r b in
  option_eqb pairN_eqb (o_head ra) (o_head rb) && (o_height ra =? o_height rb)
  && Bool.eqb (o_head_by_height ra) (o_head_by_height rb) && Bool.eqb (o_head_by_hash ra) (o_head_by_hash rb)
  && option_eqb pairN_eqb (do_tail a) (do_tail b) && Bool.eqb (do_chain a) (do_chain b)
  && option_eqb N.eqb (do_dhead a) (do_dhead b) && option_eqb N.eqb (do_dtail a) (do_dtail b).

Definition dinit (x : dcase17) : st :=
  let c := chain_of (dq_chain x) in
  let s := fst (append (st0 (dq_batch x)) (map c (dq_init x))) in
  if dq_presync x then sync s else s.

(** the model along the script: the configuration after each release *)
Fixpoint run_script (from to : N) (ctxf : bool) (x : cfg) (l : list mact) : list cfg :=
  match l with
  | [] => []
  | m :: r => let y := macro from to ctxf x m in y :: run_script from to ctxf y r
  end.

Definition dmodel (x : dcase17) : list cfg * st :=
  let c := chain_of (dq_chain x) in
  let x0 := cfg0 (dinit x) (map (map c) (dq_queue x)) in
  let tr := run_script (dq_from x) (dq_to x) (dq_ctx x) x0 (map fst (dq_script x)) in
  let xe := finish (dq_from x) (dq_to x) (dq_ctx x) (N.to_nat 8000) (last tr x0) in
  (tr, sync (c_st xe)).

Fixpoint obs_match (ms : list dobs17) (os : list (option dobs17)) : bool :=
  match ms, os with
  | [], [] => true
  | m :: mr, o :: or => match o with Some o' => dobs17_eqb m o' | None => true end && obs_match mr or
  | _, _ => false
  end.

Definition agree17d (x : dcase17) : bool :=
  let c := chain_of (dq_chain x) in
  let '(tr, se) := dmodel x in
  obs_match (map (fun y => observe17d c (dq_to x) (c_st y)) tr) (map snd (dq_script x))
  && model_probe_ok c se (dq_final x)
  && option_eqb N.eqb (d_head se) (dq_dhead x) && option_eqb N.eqb (d_tail se) (dq_dtail x)
  && match step se OReopen with (s', _, Ok) => model_probe_ok c s' (dq_reopen x) | _ => false end.

(** the property, on the observations alone *)
Definition dhead_h (o : dobs17) : N := match o_head (do_r o) with Some (h, _) => h | None => 0 end.
Fixpoint dmonotone (prev : option dobs17) (l : list dobs17) : bool :=
  match l with
  | [] => true
  | o :: r =>
    o_head_by_height (do_r o) && o_head_by_hash (do_r o) && do_chain o
    && match prev with
       | Some p => (dhead_h p <=? dhead_h o) && (o_height (do_r p) <=? o_height (do_r o))
       | None => true
       end
    && dmonotone (Some o) r
  end.

Definition dspec (x : dcase17) : spec :=
  fold_left spec_append (dq_queue x)
    (fst (spec_delete (spec_append spec0 (dq_init x)) (dq_from x) (dq_to x) None)).

Definition ok17d (x : dcase17) : bool :=
  let c := chain_of (dq_chain x) in
  let sp := dspec x in
  chain_ok (dq_chain x)
  && dmonotone None (flat_map (fun e => match snd e with Some o => [o] | None => [] end) (dq_script x))
  && spec_probe_ok c sp (dq_final x)
  && option_eqb N.eqb (dq_dhead x) (option_map (fun th => h_id (c (snd th))) (sHT sp))
  && option_eqb N.eqb (dq_dtail x) (option_map (fun th => h_id (c (fst th))) (sHT sp))
  && spec_probe_ok c sp (dq_reopen x).

Definition chk17d (x : dcase17) : bool * bool * N := (agree17d x, ok17d x, 0).
