(** Correspondence oracle for C18, second part: honest servers over PRUNED stores (every
    logged answer comes with the tail and the head of the answering server's store at that
    moment), chains that do not start at height 1 (heights just below 2^64), and runs without
    a reliable peer (the sole capable peer timed out once: the model says the call waits for
    its context).  Case type [case18t], check [chk18t], and the lemmas tying them to the
    model: [honest_evs_tb_sound] (a log accepted by the decidable check is an honest run),
    [pruned_logs_exact_range] (so the exact-range theorem applies to it), [stuck_waits]
    (no idle peer, nothing in flight: only the caller's context ends the call) and
    [chk18t_sound] (agree => ok). *)
From GH Require Import Base.Prelude Model.Verify Model.Session Proofs.VerifyP Proofs.SessionP Oracle.C05.

(** a chain given as the list of its headers at the heights off+1 .. off+length l; below
    [off] (never served: every store's tail is above it) a placeholder of the right height *)
Definition fill (n : N) : hdr := Hdr true 0 n 0%Z 0 0 true.

Definition cno (off : N) (l : list hdr) (n : N) : hdr :=
  if n <=? off then fill n else nth (N.to_nat (n - off - 1)) l (fill n).

Definition top18t (off : N) (l : list hdr) : N := off + N.of_nat (length l).

Inductive case18t :=
| Range18t (base : case05)        (* one GetRangeByHeight: parameters, the proxies' log, the result *)
           (off : N)              (* the chain list starts at height off+1 *)
           (chain : list hdr)
           (ths : list (N * N))   (* (tail, head) of the answering server's store at each logged answer *)
           (rel : option N).      (* Some p: p's answers were never empty; None: no such peer in this run *)

Definition chain_verifies_ob (drift : Z) (tv : hdr -> hdr -> tvres) (from : hdr) (off : N)
           (chain : list hdr) (now : Z) : bool :=
  let c := cno off chain in
  let top := top18t off chain in
  forallb (fun n =>
    negb (h_height from <? n) || (top <? n) ||
    (match Verify now drift tv from (c n) with None => true | _ => false end
     && ((top <? n + 1) ||
         match Verify now drift tv (c n) (c (n + 1)) with None => true | _ => false end)))
    (seqN off (S (length chain))).

Definition chain_ok_ob (drift : Z) (tv : hdr -> hdr -> tvres) (from : hdr) (off : N) (chain : list hdr)
           (nows : list Z) : bool :=
  let c := cno off chain in
  forallb (fun n => (h_height (c n) =? n) && h_ok (c n)) (seqN off (S (length chain)))
  && forallb (chain_verifies_ob drift tv from off chain) (nodup Z.eq_dec nows).

Definition expected18t (b : case05) (off : N) (chain : list hdr) : list hdr :=
  map (cno off chain) (seqN (h_height (k_from b) + 1) (N.to_nat (k_to b - (h_height (k_from b) + 1)))).

Definition agree18t (c : case18t) : bool :=
  match c with
  | Range18t b off chain ths rel =>
    let tv := vhdr_rtv (k_trust b) in
    let top := top18t off chain in
    wf05 b && agree05 b
    && (h_height (k_from b) + 1 <? two64) && (top <? two64) && (off <=? h_height (k_from b))
    && negb (degenerate b) && (k_to b - (h_height (k_from b) + 1) <=? k_maxcap b)
    && honest_evs_tb (k_drift b) tv (k_maxcap b) (k_from b) (cno off chain) top
                     (get_range (k_maxcap b) (k_per b) (k_from b) (k_to b) (k_peers b))
                     (log_events (k_log b)) ths
    && chain_ok_ob (k_drift b) tv (k_from b) off chain (nows_log (k_log b))
    && match rel with
       | Some r => negb (watchdog_hit (k_log b)) && existsb (N.eqb r) (k_peers b) && reliable_b r (k_log b)
       | None => true
       end
  end.

(** the property: exactly the chain's headers from+1 .. to-1, ascending. Without a peer whose
    answers are never empty (the sole capable peer timed out: it is dropped for the session)
    the call may also wait for the caller's context - never anything else *)
Definition ok18t (c : case18t) : bool :=
  match c with
  | Range18t b off chain _ rel =>
    match k_obs b with
    | OOk res => list_eqb hdr_eqb res (expected18t b off chain)
    | OCtx => match rel with None => true | Some _ => false end
    | _ => false
    end
  end.

Definition chk18t (c : case18t) : bool * bool * N := (agree18t c, ok18t c, 0).

(** ** logs accepted by the decidable honesty check are honest runs *)

Lemma honest_evs_tb_sound drift tv maxcap from c top evs : forall s ths,
  honest_evs_tb drift tv maxcap from c top s evs ths = true ->
  honest_run drift tv maxcap from c top s evs.
Proof.
  induction evs as [|ev evs IH]; intros s ths H; [exact I|].
  cbn [honest_evs_tb] in H. cbn [honest_run].
  destruct ev as [p r|p now fs| |]; try (split; [exact I | eapply IH; exact H]).
  destruct ths as [|[t a] ths']; [discriminate|].
  apply andb_prop in H as [H1 H2]. split; [|eapply IH; exact H2].
  unfold honest_ev. destruct (take_flight p (s_flight s)) as [[r fl]|]; [|exact I].
  apply andb_prop in H1 as [Ha Hp]. apply N.leb_le in Ha.
  destruct (prefix_b_sound frame_eqb frame_eqb_eq _ _ Hp) as (rest & Hrest).
  exists t, a, rest. split; assumption.
Qed.

Lemma pruned_logs_exact_range drift tv maxcap per (from : hdr) (to : N) peers (c : N -> hdr) (top : N)
      (evs : list event) (ths : list (N * N)) (res : list hdr) :
  h_nil from = false -> h_height from + 1 < two64 -> to < two64 -> 1 <= per ->
  (forall n, n <= top -> h_height (c n) = n) ->
  honest_evs_tb drift tv maxcap from c top (get_range maxcap per from to peers) evs ths = true ->
  GetRangeByHeight drift tv maxcap per from to peers evs = Some (ROk res) ->
  res = map c (seqN (h_height from + 1) (N.to_nat (to - (h_height from + 1)))).
Proof.
  intros Hnil Hf Ht Hper Hch Hb Hout.
  eapply exact_range; eauto. eapply honest_evs_tb_sound; exact Hb.
Qed.

(** ** no idle peer, nothing in flight: only the caller's context (or Stop) ends the call *)

Lemma stuck_step drift tv maxcap from s ev :
  s_res s = None -> s_idle s = [] -> s_flight s = [] -> ev <> ECtxDone -> ev <> EStop ->
  step drift tv maxcap from s ev = s.
Proof.
  intros Hres Hidle Hfl H1 H2. unfold step. rewrite Hres.
  destruct ev as [p r|p now fs| |]; try congruence.
  - rewrite Hidle. reflexivity.
  - rewrite Hfl. reflexivity.
Qed.

Lemma stuck_run drift tv maxcap from s evs :
  s_res s = None -> s_idle s = [] -> s_flight s = [] -> ~ In ECtxDone evs -> ~ In EStop evs ->
  run drift tv maxcap from s evs = s.
Proof.
  intros Hres Hidle Hfl. induction evs as [|ev evs IH]; intros H1 H2; [reflexivity|].
  cbn [run]. rewrite stuck_step; auto.
  - apply IH; intros Hx; [apply H1 | apply H2]; right; exact Hx.
  - intros ->. apply H1. left. reflexivity.
  - intros ->. apply H2. left. reflexivity.
Qed.

Lemma run_app drift tv maxcap from evs1 : forall s evs2,
  run drift tv maxcap from s (evs1 ++ evs2) = run drift tv maxcap from (run drift tv maxcap from s evs1) evs2.
Proof. induction evs1 as [|e evs1 IH]; intros s evs2; [reflexivity|]. cbn [app run]. apply IH. Qed.

Lemma stuck_waits drift tv maxcap per (from : hdr) (to : N) peers (evs0 evs : list event) :
  let s := run drift tv maxcap from (get_range maxcap per from to peers) evs0 in
  s_res s = None -> s_idle s = [] -> s_flight s = [] ->
  ~ In ECtxDone evs -> ~ In EStop evs ->
  GetRangeByHeight drift tv maxcap per from to peers (evs0 ++ evs) = None.
Proof.
  intros s Hres Hidle Hfl H1 H2. unfold GetRangeByHeight. rewrite run_app. fold s.
  rewrite stuck_run; auto.
Qed.

(** ** the oracle accepts whatever the model produces *)

Lemma cno_height off chain n :
  forallb (fun n => (h_height (cno off chain n) =? n) && h_ok (cno off chain n)) (seqN off (S (length chain))) = true ->
  n <= top18t off chain -> h_height (cno off chain n) = n /\ h_ok (cno off chain n) = true.
Proof.
  intros H Hn. destruct (N.leb_spec n off) as [Hle|Hgt].
  - unfold cno. apply N.leb_le in Hle. rewrite Hle. split; reflexivity.
  - rewrite forallb_forall in H. unfold top18t in Hn.
    specialize (H n (seqN_In n off (S (length chain)) ltac:(lia) ltac:(lia))).
    apply andb_prop in H as [H1 H2]. apply N.eqb_eq in H1. split; assumption.
Qed.

Lemma chain_verifies_ob_sound drift tv from off chain now :
  off <= h_height from ->
  chain_verifies_ob drift tv from off chain now = true ->
  chain_verifies drift tv from (cno off chain) (top18t off chain) now.
Proof.
  unfold chain_verifies_ob, chain_verifies. intros Hoff H n Hn Htop.
  rewrite forallb_forall in H. unfold top18t in Htop.
  specialize (H n (seqN_In n off (S (length chain)) ltac:(lia) ltac:(lia))).
  apply orb_prop in H as [H|H].
  { apply orb_prop in H as [H|H].
    - apply negb_true_iff, N.ltb_ge in H. lia.
    - apply N.ltb_lt in H. unfold top18t in H. lia. }
  apply andb_prop in H as [H1 H2]. split.
  - destruct (Verify now drift tv from (cno off chain n)); [discriminate | reflexivity].
  - intros Hn1. apply orb_prop in H2 as [H2|H2]; [apply N.ltb_lt in H2; lia|].
    destruct (Verify now drift tv (cno off chain n) (cno off chain (n + 1))); [discriminate | reflexivity].
Qed.

Theorem chk18t_sound : forall c, agree18t c = true -> ok18t c = true.
Proof.
  intros [b off chain ths rel]; cbn [agree18t ok18t]. intros H.
  apply andb_prop in H as [H Hrel]. apply andb_prop in H as [H Hchain]. apply andb_prop in H as [H Hhon].
  apply andb_prop in H as [H Hcap]. apply andb_prop in H as [H Hnd]. apply andb_prop in H as [H Hoff].
  apply andb_prop in H as [H Htop]. apply andb_prop in H as [H Hf1]. apply andb_prop in H as [Hwf Hagree].
  apply N.ltb_lt in Hf1, Htop. apply N.leb_le in Hcap, Hoff. apply negb_true_iff in Hnd.
  unfold degenerate in Hnd. apply N.leb_gt in Hnd.
  unfold wf05 in Hwf.
  apply andb_prop in Hwf as [Hwf Hper]. apply andb_prop in Hwf as [Hwf Ht]. apply andb_prop in Hwf as [Hwf Hf].
  apply negb_true_iff in Hwf. apply N.ltb_lt in Hf, Ht. apply N.leb_le in Hper.
  set (tv := vhdr_rtv (k_trust b)) in *. set (c := cno off chain) in *. set (top := top18t off chain) in *.
  set (evs := log_events (k_log b)) in *.
  unfold chain_ok_ob in Hchain. apply andb_prop in Hchain as [Hwfc Hver].
  assert (Hch : forall n, n <= top -> h_height (c n) = n).
  { intros n Hn. exact (proj1 (cno_height off chain n Hwfc Hn)). }
  assert (Hokc : forall n, n <= top -> h_ok (c n) = true).
  { intros n Hn. exact (proj2 (cno_height off chain n Hwfc Hn)). }
  apply honest_evs_tb_sound in Hhon.
  assert (Hcv : forall p0 now0 fs0, In (ERespond p0 now0 fs0) evs -> chain_verifies (k_drift b) tv (k_from b) c top now0).
  { intros p0 now0 fs0 Hev. apply log_events_kinds in Hev as (e0 & He0 & [Hd0|Hr0]); [discriminate|].
    injection Hr0 as -> -> ->. apply chain_verifies_ob_sound; [exact Hoff|].
    rewrite forallb_forall in Hver. apply Hver. apply nodup_In. unfold nows_log. apply in_map, He0. }
  unfold agree05, model05 in Hagree. fold tv in Hagree.
  destruct (replay _ _ _ _ _ _) as [s consistent] eqn:Hrep.
  destruct consistent; [|discriminate].
  apply replay_run in Hrep. fold evs in Hrep.
  destruct (model_obs (watchdog_hit (k_log b)) s) as [o|] eqn:Hmo; [|discriminate].
  rewrite (run_p_eq (k_drift b) (vhdr_tvp (k_trust b)) (k_maxcap b) (k_from b)) in Hrep.
  fold (vhdr_rtv (k_trust b)) in Hrep. fold tv in Hrep.
  assert (Hout : s_res s = GetRangeByHeight (k_drift b) tv (k_maxcap b) (k_per b) (k_from b) (k_to b) (k_peers b) evs).
  { unfold GetRangeByHeight. rewrite Hrep. reflexivity. }
  assert (Hnoctx : ~ In ECtxDone evs /\ ~ In EStop evs).
  { split; intros Hx; apply log_events_kinds in Hx as (e & _ & [Hd|Hr]); discriminate. }
  unfold model_obs in Hmo.
  destruct (s_res s) as [[l|e| |]|] eqn:Hres.
  - injection Hmo as <-. destruct (k_obs b) as [res| | | |]; try discriminate. cbn [obs_eqb] in Hagree.
    apply (list_eqb_eq hdr_eqb hdr_eqb_eq) in Hagree. subst res. symmetry in Hout.
    unfold expected18t. fold c.
    rewrite (exact_range _ _ _ _ _ _ _ c top evs l Hwf Hf1 Ht Hper Hch Hhon Hout).
    apply list_eqb_refl, hdr_eqb_refl.
  - exfalso. symmetry in Hout.
    destruct (errors_have_a_cause _ _ _ _ _ _ _ _ _ Hf Ht Hper Hout) as [(_ & Hd)|[(_ & Hx)|[(_ & Hx)|(-> & _)]]].
    + lia.
    + exact (proj1 Hnoctx Hx).
    + exact (proj2 Hnoctx Hx).
    + apply (honest_no_chain_error (k_drift b) tv (k_maxcap b) (k_per b) (k_from b) (k_to b) (k_peers b) c top evs
                                   Hwf Hf1 Ht Hper Hch Hhon); [exact Hcv|exact Hout].
  - exfalso. symmetry in Hout.
    destruct (no_response_crashes (k_drift b) tv (k_maxcap b) (k_per b) (k_from b) (k_to b) (k_peers b) evs Hwf Hf Ht Hper) as [Hp _].
    { exact Hcap. }
    exact (Hp Hout).
  - discriminate.
  - destruct rel as [rel|].
    + (* still waiting, quiescent: impossible with the reliable peer *)
      exfalso.
      apply andb_prop in Hrel as [Hrel Hrb]. apply andb_prop in Hrel as [Hwd Hin].
      apply negb_true_iff in Hwd. rewrite Hwd in Hmo.
      assert (Hreliable : reliable (k_drift b) tv (k_from b) c top rel evs).
      { intros now fs Hev. split; [|eapply Hcv; exact Hev].
        apply log_events_kinds in Hev as (e & He & [Hd|Hr]); [discriminate|].
        injection Hr as -> -> ->.
        unfold reliable_b in Hrb. rewrite forallb_forall in Hrb. specialize (Hrb e He).
        rewrite N.eqb_refl in Hrb. cbn in Hrb. destruct (l_frames e); [discriminate | discriminate]. }
      apply existsb_exists in Hin as (p' & Hp' & Heq). apply N.eqb_eq in Heq. subst p'.
      pose proof (no_deadlock (k_drift b) tv (k_maxcap b) (k_per b) (k_from b) (k_to b) (k_peers b) c top
                              Hwf Hf1 Ht Hper Htop Hch Hokc evs rel Hp' Hhon Hreliable) as Hnd'.
      cbv zeta in Hnd'. rewrite <- Hrep in Hnd'. specialize (Hnd' Hres).
      destruct (s_flight s) as [|x fl]; [|discriminate].
      destruct Hnd' as [Hx|(Hq & Hi)]; [congruence|].
      destruct (s_queue s) as [|q qs]; [congruence|]. destruct (s_idle s) as [|i is]; [destruct Hi | discriminate].
    + (* no reliable peer: the model says the call waits for its context *)
      assert (Ho : o = OCtx).
      { destruct (s_flight s); [destruct (s_queue s), (s_idle s)|]; destruct (watchdog_hit (k_log b));
          try discriminate; injection Hmo as <-; reflexivity. }
      subst o. destruct (k_obs b); try discriminate. reflexivity.
Qed.
