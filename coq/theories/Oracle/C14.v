(** Case type of the C14 check: sequential histories (as C04/C08) and the parallel
    deletion path with a failing handler, which is checked by a relational oracle only
    (which of the heights above the failed one a worker still processed is scheduling). *)
From Coq Require Import NArith List Bool.
From stdpp Require Import gmap.
From GH Require Import Base.Prelude Model.Store Model.StoreSpec Oracle.StoreCase.
From GH Require Export Model.StoreFault Oracle.StoreFault.
Import ListNotations.
Open Scope N_scope.

Record pcase := PCase {
  pc_chain : list hdr;
  pc_k : N;                         (* heights 1..k appended and synced *)
  pc_nh : nat;
  pc_from : N; pc_to : N;           (* tail-side DeleteRange(from = 1, to), taking the parallel path *)
  pc_fails : list (nat * N * bool);
  pc_out1 : oobs; pc_log1 : list hobs; pc_probe1 : probe;
  pc_out2 : oobs; pc_log2 : list hobs; pc_probe2 : probe }.   (* the retry from the new tail, no failures *)

Definition count_calls (log : list hobs) (k : nat) (n : N) : nat :=
  length (filter (fun o => Nat.eqb (ho_handler o) k && (ho_height o =? n)) log).

Definition row_of (p : probe) (n : N) : option prow := find (fun r => r_n r =? n) (p_rows p).
Definition row_present (p : probe) (c : N -> hdr) (n : N) : bool :=
  match row_of p n with
  | Some r => robs_eqb (r_gbh r) (RFound n (h_id (c n))) && robs_eqb (r_get r) (RFound n (h_id (c n))) && r_has r
  | None => false
  end.
Definition row_absent (p : probe) (n : N) : bool :=
  match row_of p n with
  | Some r => negb (match r_gbh r with RFound _ _ => true | _ => false end)
              && robs_eqb (r_get r) RNotFound && negb (r_has r)
  | None => false
  end.

Definition ok_par (x : pcase) : bool :=
  let c := chain_of (pc_chain x) in
  let S0 : gset N := list_to_set (seqN 1 (N.to_nat (pc_k x))) in
  let range := seqN (pc_from x) (N.to_nat (pc_to x - pc_from x)) in
  let hs := seq 0 (pc_nh x) in
  chain_ok (pc_chain x) && (pc_from x =? 1) && (pc_from x <? pc_to x) && (pc_to x <=? pc_k x)
  && match fail_height S0 (pc_nh x) (pc_fails x) (pc_from x) (pc_to x) with
     | None => false   (* the scenario always scripts a failure *)
     | Some k =>
       let ffh := first_failing_handler (pc_nh x) (pc_fails x) k in
       (* 1. the failing deletion: an error (never a crash); the failed header stays and becomes the tail *)
       oobs_eqb (pc_out1 x) OFail
       && option_eqb pairN_eqb (p_tail (pc_probe1 x)) (Some (k, h_id (c k)))
       && option_eqb pairN_eqb (p_head (pc_probe1 x)) (Some (pc_k x, h_id (c (pc_k x))))
       && row_present (pc_probe1 x) c k
       (* everything below it is gone, everything outside the range is untouched *)
       && forallb (fun n => if n <? k then row_absent (pc_probe1 x) n else true) range
       && forallb (fun n => row_present (pc_probe1 x) c n) (seqN (pc_to x) (N.to_nat (pc_k x + 1 - pc_to x)))
       (* every height of the range is either still there or gone, and a handler ran for it at most once,
          always while readable; exactly once for what was removed; up to the failing one at k *)
       && forallb (fun o => ho_readable o) (pc_log1 x)
       && forallb (fun n => forallb (fun h =>
            let cnt := count_calls (pc_log1 x) h n in
            if n =? k then Nat.eqb cnt (if Nat.leb h ffh then 1 else 0)
            else if row_absent (pc_probe1 x) n then Nat.eqb cnt 1
            else row_present (pc_probe1 x) c n && Nat.leb cnt 1) hs) range
       (* 2. the retry from the new tail completes the deletion and calls the handlers again for what was left *)
       && oobs_eqb (pc_out2 x) OOk
       && option_eqb pairN_eqb (p_tail (pc_probe2 x)) (Some (pc_to x, h_id (c (pc_to x))))
       && option_eqb pairN_eqb (p_head (pc_probe2 x)) (Some (pc_k x, h_id (c (pc_k x))))
       && forallb (fun n => row_absent (pc_probe2 x) n) range
       && forallb (fun n => row_present (pc_probe2 x) c n) (seqN (pc_to x) (N.to_nat (pc_k x + 1 - pc_to x)))
       && forallb (fun o => ho_readable o) (pc_log2 x)
       && forallb (fun n => forallb (fun h =>
            Nat.eqb (count_calls (pc_log2 x) h n)
                    (if (k <=? n) && row_present (pc_probe1 x) c n then 1 else 0)) hs) range
     end.

(** [CFault]: a history ending in a DeleteRange with failing datastore writes, its retry and a restart (Oracle/StoreFault.v) *)
Inductive case14 := CSeq (x : scase) | CPar (p : pcase) | CFault (f : fcase).

Definition chk14 (x : case14) : bool * bool * N :=
  match x with
  | CSeq s => chk_store s
  | CPar p => (true, ok_par p, 0)
  | CFault f => chk_fault f
  end.
