(** Correspondence interface for the store properties (C04, C08, C14, C06):
    a case is one whole history over the headers of one chain with the
    implementation's observations after every step. *)
From Coq Require Import NArith List Bool.
From stdpp Require Import gmap.
From GH Require Import Base.Prelude Model.Store Model.StoreSpec.
Import ListNotations.
Open Scope N_scope.

(** projected observation of a lookup *)
Inductive robs := RFound (height id : N) | RNotFound | RBlocks | RErr.
Inductive rrobs := RRFound (l : list (N * N)) | RRNotFound | RRBlocks | RRErr.
Inductive oobs := OOk | OFail | OPanic.

Definition robs_eqb (a b : robs) : bool :=
  match a, b with
  | RFound h i, RFound h' i' => (h =? h') && (i =? i')
  | RNotFound, RNotFound | RBlocks, RBlocks | RErr, RErr => true
  | _, _ => false
  end.
Definition pairN_eqb (a b : N * N) : bool := (fst a =? fst b) && (snd a =? snd b).
Definition rrobs_eqb (a b : rrobs) : bool :=
  match a, b with
  | RRFound l, RRFound l' => list_eqb pairN_eqb l l'
  | RRNotFound, RRNotFound | RRBlocks, RRBlocks | RRErr, RRErr => true
  | _, _ => false
  end.
Definition oobs_eqb (a b : oobs) : bool :=
  match a, b with OOk, OOk | OFail, OFail | OPanic, OPanic => true | _, _ => false end.

Record prow := PRow { r_n : N; r_gbh : robs; r_get : robs; r_has : bool; r_hasat : bool }.
Record probe := Probe {
  p_head : option (N * N);     (* height, id *)
  p_tail : option (N * N);
  p_height : N;
  p_rows : list prow;
  p_ranges : list (N * N * rrobs) }.

(** operations over chain heights *)
Inductive iop :=
| IAppend (ns : list N)
| IDelete (from to : N) (nh : nat) (fails : list (nat * N * bool))
| ISync
| IRestart
| IReopen.

Record hobs := HObs { ho_handler : nat; ho_height : N; ho_readable : bool }.
Record sstep := SStep { ss_op : iop; ss_out : oobs; ss_log : list hobs; ss_probe : option probe }.

(** final raw datastore content: header keys (ids), index (height, id), head and tail pointer ids *)
Record dump := Dump { du_hdr : list N; du_idx : list (N * N); du_head : option N; du_tail : option N }.

Record scase := SCase {
  sc_batch : N;
  sc_chain : list hdr;          (* c 1, c 2, ... c U *)
  sc_steps : list sstep;
  sc_dump : option dump }.

Definition chain_of (l : list hdr) (n : N) : hdr :=
  if n =? 0 then hdr_nil else nth (N.to_nat (n - 1)) l hdr_nil.

Definition to_op (c : N -> hdr) (o : iop) : op :=
  match o with
  | IAppend ns => OAppend (map c ns)
  | IDelete f t nh fails => ODelete f t nh fails
  | ISync => OSync
  | IRestart => ORestart
  | IReopen => OReopen
  end.

Definition rob (r : res hdr) : robs :=
  match r with Found h => RFound (h_height h) (h_id h) | NotFound => RNotFound | Blocks => RBlocks | Err => RErr end.
Definition rrob (r : res (list hdr)) : rrobs :=
  match r with
  | Found l => RRFound (map (fun h => (h_height h, h_id h)) l)
  | NotFound => RRNotFound | Blocks => RRBlocks | Err => RRErr
  end.
Definition oob (o : outcome) : oobs := match o with Ok => OOk | Fail => OFail | Panic => OPanic end.
Definition ptr (o : option hdr) : option (N * N) := option_map (fun h => (h_height h, h_id h)) o.

(** does the observed probe equal the probe computed by the four lookup functions? *)
Section probe_eq.
Variables (head tail : option (N * N)) (height : N)
          (gbh get : N -> robs) (hasf hasat : N -> bool) (range : N -> N -> rrobs).
Definition probe_matches (p : probe) : bool :=
  option_eqb pairN_eqb (p_head p) head && option_eqb pairN_eqb (p_tail p) tail && (p_height p =? height)
  && forallb (fun r => robs_eqb (r_gbh r) (gbh (r_n r)) && robs_eqb (r_get r) (get (r_n r))
                       && Bool.eqb (r_has r) (hasf (r_n r)) && Bool.eqb (r_hasat r) (hasat (r_n r))) (p_rows p)
  && forallb (fun q => rrobs_eqb (snd q) (range (fst (fst q)) (snd (fst q)))) (p_ranges p).
End probe_eq.

Definition model_probe_ok (c : N -> hdr) (s : st) (p : probe) : bool :=
  probe_matches (ptr (headp s)) (ptr (tailp s)) (hsh s)
    (fun n => rob (get_by_height s n)) (fun n => rob (get s (h_id (c n))))
    (fun n => has s (h_id (c n))) (has_at s) (fun f t => rrob (get_range s f t)) p.

Definition hobs_eqb (a : hcall) (b : hobs) : bool :=
  Nat.eqb (hc_handler a) (ho_handler b) && (hc_height a =? ho_height b) && Bool.eqb (hc_readable a) (ho_readable b).
Fixpoint log_eqb (a : list hcall) (b : list hobs) : bool :=
  match a, b with
  | [], [] => true
  | x :: r, y :: r' => hobs_eqb x y && log_eqb r r'
  | _, _ => false
  end.

(** agree: the model reproduces every observation of the history *)
Fixpoint model_agrees (c : N -> hdr) (s : st) (steps : list sstep) : bool * st :=
  match steps with
  | [] => (true, s)
  | x :: r =>
    let '(s', log, out) := step s (to_op c (ss_op x)) in
    let ok := oobs_eqb (oob out) (ss_out x) && log_eqb log (ss_log x)
              && match ss_probe x with Some p => model_probe_ok c s' p | None => true end in
    if ok then model_agrees c s' r else (false, s')
  end.

Definition incl_b (a b : list N) : bool := forallb (fun x => existsb (N.eqb x) b) a.
Definition dump_matches (s : st) (d : dump) : bool :=
  let mh := map fst (map_to_list (d_hdr s)) in
  let mi := map_to_list (d_idx s) in
  incl_b mh (du_hdr d) && incl_b (du_hdr d) mh
  && forallb (fun p => existsb (pairN_eqb p) (du_idx d)) mi
  && forallb (fun p => existsb (pairN_eqb p) mi) (du_idx d)
  && option_eqb N.eqb (d_head s) (du_head d) && option_eqb N.eqb (d_tail s) (du_tail d).

Definition agree_case (x : scase) : bool :=
  let c := chain_of (sc_chain x) in
  let '(ok, s) := model_agrees c (st0 (sc_batch x)) (sc_steps x) in
  ok && match sc_dump x with Some d => dump_matches s d | None => true end.

(** ** the property oracle: the observations equal those of the abstract specification *)

Definition spec_probe_ok (c : N -> hdr) (s : spec) (p : probe) : bool :=
  let pt n := (n, h_id (c n)) in
  probe_matches (option_map (fun th => pt (snd th)) (sHT s)) (option_map (fun th => pt (fst th)) (sHT s))
    (spec_height s)
    (fun n => rob (spec_gbh c s n)) (fun n => if n =? 0 then RNotFound else rob (spec_get c s n))
    (fun n => negb (n =? 0) && bool_decide (n ∈ sS s)) (spec_has_at s) (fun f t => rrob (spec_range c s f t)) p.

(** first height of the range that is stored and for which some handler fails *)
Definition fail_height (S : gset N) (nh : nat) (fails : list (nat * N * bool)) (from to : N) : option N :=
  find (fun n => bool_decide (n ∈ S) &&
                 existsb (fun f => Nat.ltb (fst (fst f)) nh && (snd (fst f) =? n)) fails)
       (seqN from (N.to_nat (to - from))).

(** handler calls the specification expects: for each stored height of the range below the
    failing one every handler once, readable; at the failing height handlers up to the first failing one *)
Definition first_failing_handler (nh : nat) (fails : list (nat * N * bool)) (n : N) : nat :=
  let fix go k cnt := match cnt with
                      | O => nh
                      | S c => if existsb (fun f => Nat.eqb (fst (fst f)) k && (snd (fst f) =? n)) fails then k else go (S k) c
                      end in go 0%nat nh.
Definition expected_log (S : gset N) (nh : nat) (fails : list (nat * N * bool)) (from to : N) (stop : option N)
  : list hobs :=
  let upto := match stop with Some k => k | None => to end in
  flat_map (fun n => if bool_decide (n ∈ S) then map (fun k => HObs k n true) (seq 0 nh) else [])
           (seqN from (N.to_nat (upto - from)))
  ++ match stop with
     | Some k => map (fun j => HObs j k true) (seq 0 (Datatypes.S (first_failing_handler nh fails k)))
     | None => []
     end.

Definition hobs_eqb' (a b : hobs) : bool :=
  Nat.eqb (ho_handler a) (ho_handler b) && (ho_height a =? ho_height b) && Bool.eqb (ho_readable a) (ho_readable b).

Definition valid_delete (s : spec) (from to : N) : bool :=
  match spec_delete s from to None with (_, Ok) => true | _ => false end.

Definition spec_step (s : spec) (x : sstep) : spec * oobs * list hobs :=
  match ss_op x with
  | IAppend ns => (spec_append s ns, OOk, [])
  | IDelete from to nh fails =>
    if valid_delete s from to then
      let stop := fail_height (sS s) nh fails from to in
      let '(s', out) := spec_delete s from to stop in
      (s', oob out, expected_log (sS s) nh fails from to stop)
    else (s, OFail, [])
  | ISync | IRestart | IReopen => (s, OOk, [])
  end.

Fixpoint spec_ok (c : N -> hdr) (s : spec) (steps : list sstep) : bool :=
  match steps with
  | [] => true
  | x :: r =>
    let '(s', out, log) := spec_step s x in
    oobs_eqb out (ss_out x) && list_eqb hobs_eqb' log (ss_log x)
    && match ss_probe x with Some p => spec_probe_ok c s' p | None => true end
    && spec_ok c s' r
  end.

(** the chain hypotheses the property quantifies over, checked on the case's universe *)
Definition chain_ok (l : list hdr) : bool :=
  let fix go (n : N) (prev : N) (l : list hdr) (seen : list N) :=
    match l with
    | [] => true
    | h :: r => negb (h_nil h) && (h_height h =? n) && (h_prev h =? prev) && negb (h_id h =? 0)
                && negb (existsb (N.eqb (h_id h)) seen) && go (n + 1) (h_id h) r (h_id h :: seen)
    end in go 1 0 l [].

Definition ok_case (x : scase) : bool :=
  chain_ok (sc_chain x) && spec_ok (chain_of (sc_chain x)) spec0 (sc_steps x).

Definition chk_store (x : scase) : bool * bool * N := (agree_case x, ok_case x, 0).
