(** Correspondence oracle for C11: the case record (inputs + what the harness
    observed on the real node), the model's prediction of that observation, the
    property restated as a decidable check of the observation, and the lemma
    that the model's own observation always passes that check. *)
From GH Require Import Base.Prelude Model.Subscriber Proofs.SubscriberP.

(** who hands the message to the node under test: a remote peer, or the node
    itself publishing (then there is no sender to penalise) *)
Inductive path := PWire | PLocal.

(** when the verifier is registered relative to the message *)
Inductive setmode := SetBefore | SetLate | NeverSet.

(** the validation verdict as seen from outside: tracer Deliver / Reject
    "validation ignored" / Reject "validation failed" (wire), result of Publish
    (local); no verdict at all; something else (another drop reason, two
    verdicts, two deliveries); the process died *)
Inductive vobs := OAccept | OIgnore | OReject | ONoVerdict | OOtherDrop | OCrash.

Record case11 := Case11 {
  c_path : path;
  c_vdata : vdata;           (* ValidatorData attached by the publisher *)
  c_decode : decode;         (* what the header type's codec makes of the payload bytes *)
  c_valpanic : bool;         (* Validate panics (typed-nil header); otherwise Validate = h_ok *)
  c_ver : verres;            (* the scripted outcome of the verifier registered first *)
  c_decoy : verres;          (* ... and of the one given to a second SetVerifier call *)
  c_mode : setmode;
  (* observation *)
  c_verdict : vobs;
  c_delivered : option N;    (* id of the header Subscription.NextHeader returned *)
  c_relayed : bool;          (* the node behind received the payload *)
  c_penalised : bool;        (* the sender's invalid-message counter went up *)
  c_vcall : option N;        (* id of the header the verifier was called with *)
  c_probe : option bool;     (* a later valid message was still delivered (None: not probed) *)
  c_sets : list bool         (* "returned nil" of the two SetVerifier calls *)
}.

Definition val_of (c : case11) : hdr -> valres :=
  fun h => if c_valpanic c then ValPanic else if h_ok h then ValNil else ValErr.

Definition wait_of (m : setmode) : waitres :=
  match m with NeverSet => WaitCtxDone | _ => WaitSet end.

Definition is_wire (p : path) : bool := match p with PWire => true | PLocal => false end.

Definition vobs_eqb (a b : vobs) : bool :=
  match a, b with
  | OAccept, OAccept | OIgnore, OIgnore | OReject, OReject
  | ONoVerdict, ONoVerdict | OOtherDrop, OOtherDrop | OCrash, OCrash => true
  | _, _ => false
  end.

(** the observation as a tuple *)
Definition obs11 := (vobs * option N * bool * bool * option N * list bool)%type.

Definition obs_eqb (a b : obs11) : bool :=
  let '(v, d, r, p, k, s) := a in
  let '(v', d', r', p', k', s') := b in
  vobs_eqb v v' && option_eqb N.eqb d d' && Bool.eqb r r' && Bool.eqb p p' && option_eqb N.eqb k k'
  && list_eqb Bool.eqb s s'.

Definition observed (c : case11) : obs11 :=
  (c_verdict c, c_delivered c, c_relayed c, c_penalised c, c_vcall c, c_sets c).

(** the model run on the case's inputs, projected to the same observables *)
(** the SetVerifier calls that happen before the node's context ends *)
Definition regs_of (c : case11) : list (hdr -> verres) :=
  match c_mode c with
  | NeverSet => []
  | _ => [fun _ => c_ver c; fun _ => c_decoy c]
  end.

Definition model11 (c : case11) : obs11 :=
  let r := validate_registered (val_of c) (regs_of c) (Msg (c_vdata c) (c_decode c)) in
  let e := pubsub_effects r in
  let v := if e_crash e then OCrash else
           match r_out r with SAccept _ => OAccept | SIgnore => OIgnore | SReject => OReject | SPanic => OCrash end in
  let d := match e_deliver e with Some (NhOk h) => Some (h_id h) | _ => None end in
  (v, d, e_relay e, e_penalise e && is_wire (c_path c), option_map h_id (r_vcall r),
   snd (set_verifiers None [fun _ : hdr => c_ver c; fun _ => c_decoy c])).

(** the probe: the model says the node never crashes, so a later valid message
    must still get through *)
Definition probe_ok (c : case11) : bool :=
  match c_probe c with Some false => false | _ => true end.

(** ** the property, restated on the observation (written independently of the
    model's code path: a table over the input classes) *)

Definition carried (c : case11) : option hdr :=
  match c_vdata c, c_decode c with
  | VdHdr h, _ => Some h
  | VdNone, DecOk h => Some h
  | _, _ => None
  end.

Definition soft_by_find (chain : list (option bool)) : bool :=
  match find (fun x => match x with Some _ => true | None => false end) chain with
  | Some (Some true) => true
  | _ => false
  end.

(** expected verdict and delivered id *)
Definition expect (c : case11) : vobs * option N :=
  match carried c with
  | None => (OReject, None)
  | Some h =>
    if c_valpanic c || negb (h_ok h) then (OReject, None) else
    match c_mode c with
    | NeverSet => (OIgnore, None)
    | _ =>
      match c_ver c with
      | VerNil => (OAccept, Some (h_id h))
      | VerPanic => (OReject, None)
      | VerErr chain => if soft_by_find chain then (OIgnore, None) else (OReject, None)
      end
    end
  end.

Definition ok11 (c : case11) : bool :=
  let '(v, d) := expect c in
  (* exactly the right verdict; in particular never a crash *)
  vobs_eqb (c_verdict c) v
  (* delivered exactly when accepted, and the delivered value is the carried header *)
  && option_eqb N.eqb (c_delivered c) d
  (* relayed exactly when accepted *)
  && Bool.eqb (c_relayed c) (vobs_eqb v OAccept)
  (* the sender is penalised exactly when rejected (never on ignore / accept) *)
  && Bool.eqb (c_penalised c) (vobs_eqb v OReject && is_wire (c_path c))
  (* the verifier only ever sees the carried, validated header, and only once it is set *)
  && match c_vcall c with
     | None => true
     | Some k =>
       match carried c, c_mode c with
       | _, NeverSet | None, _ => false
       | Some h, _ => (k =? h_id h) && h_ok h && negb (c_valpanic c)
       end
     end
  (* the node is still alive afterwards *)
  && probe_ok c
  (* the first SetVerifier is accepted, the second refused *)
  && list_eqb Bool.eqb (c_sets c) [true; false].

Definition chk11 (c : case11) : bool * bool * N :=
  (obs_eqb (model11 c) (observed c) && probe_ok c, ok11 c, 0).

(** ** the oracle agrees with the model: the model's own observation always
    satisfies the property check *)

Lemma soft_by_find_eq chain : soft_by_find chain = is_soft chain.
Proof.
  unfold soft_by_find, is_soft.
  induction chain as [|[b|] r IH]; cbn; auto.
Qed.

Definition with_obs (c : case11) (o : obs11) : case11 :=
  let '(v, d, r, p, k, s) := o in
  Case11 (c_path c) (c_vdata c) (c_decode c) (c_valpanic c) (c_ver c) (c_decoy c) (c_mode c) v d r p k (c_probe c) s.

Theorem model11_ok : forall c, probe_ok c = true -> ok11 (with_obs c (model11 c)) = true.
Proof.
  intros [p vd dc vp vr dy md v d r pe k pr ss] P.
  unfold ok11, with_obs, model11, expect, carried, validate_registered, regs_of, verify_message, verify_body, extract_header,
    pubsub_effects, val_of, wait_of, probe_ok in *.
  cbn [c_path c_vdata c_decode c_valpanic c_ver c_decoy c_mode c_verdict c_delivered c_relayed c_penalised c_vcall c_probe c_sets
       m_vdata m_decode] in *.
  rewrite P.
  destruct vd as [|hv|], dc as [hd| |]; cbn;
    try destruct vp; cbn;
    try (destruct (h_ok hv)); try (destruct (h_ok hd)); cbn;
    destruct md; cbn;
    try (destruct vr as [|chain|]; cbn; try rewrite soft_by_find_eq; try destruct (is_soft chain); cbn);
    rewrite ?N.eqb_refl; destruct p; reflexivity.
Qed.

(** and conversely: the property check pins every compared observable except the
    verifier call to a function of the inputs, so an observation that passes it
    coincides with the model's (so [agree] adds to [ok] only the exactness of
    the verifier call) *)
Lemma ok11_pins c :
  ok11 c = true ->
  c_verdict c = fst (expect c) /\ c_delivered c = snd (expect c) /\
  c_relayed c = vobs_eqb (fst (expect c)) OAccept /\
  c_penalised c = (vobs_eqb (fst (expect c)) OReject && is_wire (c_path c)) /\
  c_sets c = [true; false].
Proof.
  unfold ok11. destruct (expect c) as [ev ed]. cbn [fst snd]. intros H.
  repeat (apply andb_prop in H; destruct H as [H ?]).
  assert (V : forall a b, vobs_eqb a b = true -> a = b) by (intros [] []; cbn; congruence).
  assert (O : forall a b : option N, option_eqb N.eqb a b = true -> a = b).
  { intros [a|] [b|]; cbn; try congruence. intros Q. apply N.eqb_eq in Q. congruence. }
  assert (B : forall a b, Bool.eqb a b = true -> a = b) by (intros [] []; cbn; congruence).
  repeat split; auto.
  match goal with A : list_eqb Bool.eqb (c_sets c) _ = true |- _ => revert A end.
  destruct (c_sets c) as [|[|] [|[|] [|? ?]]]; cbn; congruence.
Qed.

Theorem ok11_model : forall c,
  ok11 c = true ->
  let '(v, d, r, p, _, s) := model11 c in
  c_verdict c = v /\ c_delivered c = d /\ c_relayed c = r /\ c_penalised c = p /\ c_sets c = s.
Proof.
  intros c H.
  assert (P : probe_ok c = true).
  { unfold ok11 in H. destruct (expect c). repeat (apply andb_prop in H; destruct H as [H ?]). assumption. }
  pose proof (ok11_pins _ (model11_ok c P)) as M.
  pose proof (ok11_pins _ H) as (A1 & A2 & A3 & A4 & A5).
  destruct (model11 c) as [[[[[v d] r] p] k] ss] eqn:E.
  assert (EX : expect (with_obs c (v, d, r, p, k, ss)) = expect c) by (destruct c; reflexivity).
  assert (PA : c_path (with_obs c (v, d, r, p, k, ss)) = c_path c) by (destruct c; reflexivity).
  rewrite EX, PA in M. destruct c; cbn in *. destruct M as (M1 & M2 & M3 & M4 & M5).
  repeat split; congruence.
Qed.

(** * several local Subscriptions (second follow-up)

    The receiving node holds several Subscriptions (Subscriber.Subscribe called more than once);
    [so_cancelled]: Cancel() was called on it before the message was published; [so_got]: the ids
    of the headers its NextHeader returned that belong to this message. *)
Record subobs := SubObs { so_cancelled : bool; so_got : list N }.

Record case11s := Case11s { s_base : case11; s_subs : list subobs }.

Definition state_of (s : subobs) : substate := if so_cancelled s then SubCancelled else SubLive.

Definition nh_ids (d : list nhres) : list N :=
  flat_map (fun r => match r with NhOk h => [h_id h] | NhPanic => [] end) d.

(** the model's per-Subscription deliveries, projected to ids *)
Definition model_subs (c : case11) (subs : list substate) : list (list N) :=
  let r := validate_registered (val_of c) (regs_of c) (Msg (c_vdata c) (c_decode c)) in
  map nh_ids (deliveries (pubsub_effects r) subs).

Definition agree_subs (c : case11s) : bool :=
  list_eqb (list_eqb N.eqb) (model_subs (s_base c) (map state_of (s_subs c))) (map so_got (s_subs c)).

(** the property per Subscription, from the input table [expect]: a live one gets exactly the
    accepted header, once; a cancelled one nothing *)
Definition sub_ok (c : case11) (s : subobs) : bool :=
  list_eqb N.eqb (so_got s)
           (if so_cancelled s then [] else match snd (expect c) with Some k => [k] | None => [] end).

Definition ok_subs (c : case11s) : bool := forallb (sub_ok (s_base c)) (s_subs c).

Definition chk11s (c : case11s) : bool * bool * N :=
  let '(a, o, k) := chk11 (s_base c) in (a && agree_subs c, o && ok_subs c, k).

(** the model's own per-Subscription observation satisfies the check *)
Lemma model_sub_live c (P : probe_ok c = true) :
  model_subs c [SubLive] = [match snd (expect c) with Some k => [k] | None => [] end].
Proof.
  pose proof (ok11_pins _ (model11_ok c P)) as (_ & M2 & _).
  assert (EX : expect (with_obs c (model11 c)) = expect c).
  { destruct (model11 c) as [[[[[v d] r] p] k] ss]. destruct c; reflexivity. }
  rewrite EX in M2. rewrite <- M2.
  unfold model_subs, model11, deliveries, deliver_to. cbn [map].
  destruct (e_deliver (pubsub_effects _)) as [[h|]|]; destruct c; reflexivity.
Qed.

Lemma list_eqb_refl_N (l : list N) : list_eqb N.eqb l l = true.
Proof. induction l as [|a l IH]; cbn; [reflexivity | rewrite N.eqb_refl, IH; reflexivity]. Qed.

Theorem model_subs_ok : forall c cancelled, probe_ok c = true ->
  forallb (sub_ok c)
          (map (fun '(x, g) => SubObs x g)
               (combine cancelled (model_subs c (map (fun x : bool => if x then SubCancelled else SubLive) cancelled)))) = true.
Proof.
  intros c cancelled P. unfold model_subs, deliveries.
  induction cancelled as [|x l IH]; [reflexivity|].
  cbn [map combine forallb]. rewrite IH, andb_true_r.
  unfold sub_ok. cbn [so_got so_cancelled]. destruct x.
  - reflexivity.
  - pose proof (model_sub_live c P) as L. cbv [model_subs deliveries deliver_to map] in L.
    injection L as L. cbv [deliver_to]. rewrite L. apply list_eqb_refl_N.
Qed.
