(** Correspondence oracle for C15 (bifurcation): the case record, the model run on a
    case's inputs, and the property restated as a decidable check of the
    implementation's observation. *)
From GH Require Import Base.Prelude Model.Verify Model.Bifurcate Oracle.C01.

(** ** the harness' type-level trust policy (Gallina twin of the Go policy in harness/c15) *)
Record policy := Policy {
  p_range : N;             (* non-adjacent verification accepted when gap <= p_range ... *)
  p_a : N; p_b : N; p_c : N; p_m : N; p_k : N;
                           (* ... or when (a*(t mod m) + b*(u mod m) + c) mod m < k   (m = 0: never) *)
  p_forged : list N;       (* hash ids no non-adjacent verification accepts (too little overlap) *)
  p_adj_soft : bool        (* the type reports a broken hash link as a soft *VerifyError *)
}.

Definition trusts (p : policy) (t u : N) : bool :=
  (sub64 u t <=? p_range p) ||
  (negb (p_m p =? 0) &&
   ((p_a p * (t mod p_m p) + p_b p * (u mod p_m p) + p_c p) mod p_m p <? p_k p)).

Definition pol_tv (p : policy) (t u : hdr) : tvres :=
  if h_height u =? wrap64 (h_height t + 1) then
    if h_prev u =? h_id t then TVOk
    else if p_adj_soft p then TVVerr true 1 else TVPlain 1
  else if existsb (N.eqb (h_id u)) (p_forged p) then TVPlain 3
  else if trusts p (h_height t) (h_height u) then TVOk else TVPlain 2.

(** ** the harness' getter: an honest chain plus overrides, answering only its first
    [budget] requests *)
Record gspec := GSpec {
  g_lo : N; g_hi : N;                 (* heights the honest chain answers *)
  g_t0 : Z; g_dt : Z;                 (* chain header h: time t0 + h*dt, hash id h, prev id h-1 *)
  g_over : list (N * option hdr) }.   (* by asked height: an error, or some other header *)

Definition chain_hdr (t0 dt : Z) (h : N) : hdr :=
  Hdr false 1 h (t0 + Z.of_N h * dt)%Z h (h - 1) true.

Definition tab_lookup (g : gspec) (h : N) : option hdr :=
  match find (fun p => fst p =? h) (g_over g) with
  | Some p => snd p
  | None => if (g_lo g <=? h) && (h <=? g_hi g) then Some (chain_hdr (g_t0 g) (g_dt g) h) else None
  end.

Definition getter (g : gspec) (budget : nat) (i : nat) (h : N) : option hdr :=
  if (i <? budget)%nat then tab_lookup g h else None.

(** every answer has the asked height *)
Definition heights_honest (g : gspec) : bool :=
  forallb (fun p => match snd p with None => true | Some x => h_height x =? fst p end) (g_over g).

(** what the harness observes of the verifier's result *)
Inductive vobs :=
| VAccept                 (* nil *)
| VRefuse (e : eobs)      (* an error in which errors.As finds a *VerifyError: its class *)
| VOther                  (* any other error (here: the wrapped getter error) *)
| VPanic.                 (* the call panicked *)

Definition vobs_eqb (a b : vobs) : bool :=
  match a, b with
  | VAccept, VAccept | VOther, VOther => true
  | VRefuse x, VRefuse y => eobs_eqb x y
  | _, _ => false
  end.

Record case15 := Case15 {
  k_now : Z; k_drift : Z;
  k_pol : policy;
  k_path : bool;                (* how the candidate reaches the Syncer: false = through the subscriber's
                                   verifier; true = as the answer (candidate, soft *VerifyError) of the
                                   head request made by Syncer.Head() *)
  k_store : hdr;                (* the Store's head *)
  k_subj : hdr;                 (* the Syncer's subjective head (the store head or a pending target above it) *)
  k_new : hdr;                  (* the candidate *)
  k_get : gspec; k_budget : N;  (* the getter; it answers only its first k_budget requests *)
  k_verdict : vobs;             (* verifier path: class of the error returned by the verifier *)
  k_ret : N;                    (* head path: id of the header Syncer.Head() answered with *)
  k_callsz : list N;            (* GetByHeight requests, one number each: asked height * 10^6 +
                                   id of Syncer.Head() at that time (ids are < 10^6) *)
  k_head : N;                   (* id of Syncer.Head() afterwards *)
  k_store_after : N }.          (* id of the Store's head afterwards *)

Definition dec_call (z : N) : N * N := (z / 1000000, z mod 1000000).
Definition k_calls (c : case15) : list (N * N) := map dec_call (k_callsz c).

Definition verdict_obs (v : verdict) : vobs :=
  match v with
  | Accept => VAccept
  | Refuse FGetter | Refuse FHeight => VOther
  | Refuse (FCandidate e) | Refuse (FNewHead e) | Refuse (FDirect e) => VRefuse (obs_of (Some e))
  | OutOfFuel => VPanic   (* never produced: the fuel given below always suffices (model15_fuel) *)
  end.

Definition run15 (c : case15) : brun :=
  incoming (k_now c) (k_drift c) (pol_tv (k_pol c)) (getter (k_get c) (N.to_nat (k_budget c)))
           (S (N.to_nat (k_budget c))) (k_subj c) (k_new c).

(** verdict, requests, Syncer.Head() afterwards, answer of the head request, Store head afterwards.
    Both paths run [head_soft]: its run is [incoming] (C15_head_request_path). *)
Definition model15 (c : case15) : vobs * list (N * N) * N * N * N :=
  let '(r, ans) := head_soft (k_now c) (k_drift c) (pol_tv (k_pol c)) (getter (k_get c) (N.to_nat (k_budget c)))
                             (S (N.to_nat (k_budget c))) (k_subj c) (k_new c) in
  (verdict_obs (b_verdict r), b_calls r, h_id (head_after (k_subj c) r), h_id ans,
   h_id (store_after (k_store c) (b_promoted r))).

Definition call_eqb (a b : N * N) : bool := (fst a =? fst b) && (snd a =? snd b).

(** ** the property as a check of an observation.
    [replay]: walk the observed requests; the verified head moves to a getter answer
    exactly when that answer passes Verify against the current one; Syncer.Head()
    seen at each request must be the old subjective head or one of the heads verified
    so far ([seen]); a failed request -- an error, or a non-zero answer of another
    height than asked -- must be the last one. Returns the final
    verified head, the ids of all verified heads, and whether the last request
    failed -- without re-doing the halving arithmetic. *)
Fixpoint replay (now drift : Z) (tv : hdr -> hdr -> tvres) (get : nat -> N -> option hdr)
         (i : nat) (cur : hdr) (seen : list N) (calls : list (N * N)) : option (hdr * list N * bool) :=
  match calls with
  | [] => Some (cur, seen, false)
  | (h, sid) :: r =>
    if negb (existsb (N.eqb sid) seen) then None
    else match get i h with
         | None => match r with [] => Some (cur, seen, true) | _ => None end
         | Some c =>
           if negb (h_nil c) && negb (h_height c =? h)
           then match r with [] => Some (cur, seen, true) | _ => None end
           else
           match Verify now drift tv cur c with
           | None => replay now drift tv get (S i) c (h_id c :: seen) r
           | Some _ => replay now drift tv get (S i) cur seen r
           end
         end
  end.

Definition is_accept (v : vobs) : bool := match v with VAccept => true | _ => false end.
Definition is_other (v : vobs) : bool := match v with VOther => true | _ => false end.
Definition is_panic (v : vobs) : bool := match v with VPanic => true | _ => false end.
Definition no_calls (l : list (N * N)) : bool := match l with [] => true | _ => false end.

(** the decidable side conditions under which completeness (C15_complete) applies to a case:
    the getter serves the honest chain on every height between the heads for as many
    requests as the bound allows, the subjective head is that chain's header, the chain's
    time stamps are ordered and not from the future (so chain headers pass the mandatory
    checks against each other), the candidate is not rejected hard by the direct
    verification and IS verified by the chain header just below it *)
Definition complete_applies (now drift : Z) (pol : policy) (subj new : hdr) (g : gspec) (budget : N) : bool :=
  let s := h_height subj in
  let n := h_height new in
  let c := chain_hdr (g_t0 g) (g_dt g) in
  let V := Verify now drift (pol_tv pol) in
  (s <? n) && (n <? two64) && (g_lo g <=? s) && (n <=? g_hi g) &&
  forallb (fun p => (fst p <? s) || (n <? fst p)) (g_over g) &&
  (0 <=? g_dt g)%Z && (g_t0 g + Z.of_N n * g_dt g <=? now + drift)%Z &&
  hdr_eqb subj (c s) &&
  (bound (n - s) <=? budget) &&
  match V subj new with None => true | Some e => ve_soft e end &&
  match V (c (n - 1)) new with None => true | Some _ => false end.

(** the check, on inputs and a (decoded) observation *)
Definition ok_core (now drift : Z) (pol : policy) (subj new : hdr) (g : gspec) (budget : N)
           (v : vobs) (calls : list (N * N)) (hd : N) : bool :=
  let V := Verify now drift (pol_tv pol) in
  let s := h_height subj in
  let n := h_height new in
  negb (is_panic v) &&
  (* soft failures only trigger bifurcation *)
  match V subj new with
  | None => is_accept v && no_calls calls
  | Some e => ve_soft e || (vobs_eqb v (VRefuse (obs_of (Some e))) && no_calls calls)
  end &&
  match replay now drift (pol_tv pol) (getter g (N.to_nat budget)) 0 subj [h_id subj] calls with
  | None => false
  | Some (cur, seen, failed) =>
    (* accepted iff the verified intermediates reach the candidate; refused when a fetch failed *)
    Bool.eqb (is_accept v) (match V cur new with None => true | Some _ => false end && negb failed)
    && (if failed then negb (is_accept v) else negb (is_other v))
    (* afterwards the subjective head is the accepted candidate, else still a verified header *)
    && (if is_accept v then hd =? h_id new else existsb (N.eqb hd) seen)
  end &&
  (* bounded number of requests, whatever the getter answers *)
  (negb ((s <=? n) && (n <? two64))
   || (N.of_nat (length calls) <=? bound (n - s))).

Definition ok_obs (now drift : Z) (pol : policy) (subj new : hdr) (g : gspec) (budget : N)
           (v : vobs) (calls : list (N * N)) (hd : N) : bool :=
  ok_core now drift pol subj new g budget v calls hd &&
  (* completeness: with an honest getter, a candidate its predecessor verifies is accepted *)
  (negb (complete_applies now drift pol subj new g budget) || is_accept v).

(** head path: the verdict itself is not observable (networkHead swallows the error); what the
    replay says the verdict must be decides what the answer and the heads may be *)
Definition ok_head (now drift : Z) (pol : policy) (subj new : hdr) (g : gspec) (budget : N)
           (ret : N) (calls : list (N * N)) (hd : N) : bool :=
  let V := Verify now drift (pol_tv pol) in
  let s := h_height subj in
  let n := h_height new in
  (* soft failures (as re-checked by Syncer.verify) only trigger bifurcation *)
  match V subj new with
  | None => no_calls calls
  | Some e => ve_soft e || no_calls calls
  end &&
  match replay now drift (pol_tv pol) (getter g (N.to_nat budget)) 0 subj [h_id subj] calls with
  | None => false
  | Some (cur, seen, failed) =>
    if match V cur new with None => true | Some _ => false end && negb failed
    then (* the verified heads reach the candidate: it is the answer and the subjective head *)
      (ret =? h_id new) && (hd =? h_id new)
    else (* refused: the answer and the subjective head are still verified headers, not the candidate *)
      existsb (N.eqb ret) seen && existsb (N.eqb hd) seen
  end &&
  (negb ((s <=? n) && (n <? two64))
   || (N.of_nat (length calls) <=? bound (n - s))) &&
  (negb (complete_applies now drift pol subj new g budget) || (ret =? h_id new)).

(** both paths: the Store's head afterwards is the old one, a verified header, or the candidate
    when the verified heads reach it -- a refused candidate is never stored *)
Definition ok_store (now drift : Z) (pol : policy) (store subj new : hdr) (g : gspec) (budget : N)
           (calls : list (N * N)) (st : N) : bool :=
  match replay now drift (pol_tv pol) (getter g (N.to_nat budget)) 0 subj [h_id subj] calls with
  | None => false
  | Some (cur, seen, failed) =>
    existsb (N.eqb st) (h_id store :: seen) ||
    (match Verify now drift (pol_tv pol) cur new with None => true | Some _ => false end && negb failed
     && (st =? h_id new))
  end.

Definition ok_all (now drift : Z) (pol : policy) (path : bool) (store subj new : hdr) (g : gspec) (budget : N)
           (v : vobs) (ret : N) (calls : list (N * N)) (hd st : N) : bool :=
  (if path then ok_head now drift pol subj new g budget ret calls hd
   else ok_obs now drift pol subj new g budget v calls hd) &&
  ok_store now drift pol store subj new g budget calls st.

Definition ok15 (c : case15) : bool :=
  ok_all (k_now c) (k_drift c) (k_pol c) (k_path c) (k_store c) (k_subj c) (k_new c) (k_get c) (k_budget c)
         (k_verdict c) (k_ret c) (k_calls c) (k_head c) (k_store_after c).

Definition chk15 (c : case15) : bool * bool * N :=
  let '(v, calls, hd, ret, st) := model15 c in
  ((if k_path c then ret =? k_ret c else vobs_eqb v (k_verdict c)) &&
   list_eqb call_eqb calls (k_calls c) && (hd =? k_head c) && (st =? k_store_after c), ok15 c, 0).

(** ** the oracle is tied to the model: the model's own observation always satisfies [ok15]
    (so on a case where model and implementation agree, the property holds of the
    implementation's observation) *)
From Coq Require Import ZifyBool ZifyNat ZifyN.
From GH Require Import Proofs.VerifyP Proofs.BifurcateP.

Lemma last_or_in {A} (l : list A) (d : A) : last l d = d \/ In (last l d) l.
Proof. destruct l as [|a l]; [left; reflexivity | right; apply last_in; discriminate]. Qed.

Section tie.
Variables (now drift : Z) (tv : hdr -> hdr -> tvres) (get : nat -> N -> option hdr).
Notation V := (Verify now drift tv).
Notation bif := (bifurcate now drift tv get).

(** more fuel does not change a run that did not run out of fuel *)
Lemma bif_fuel_mono new f : forall f' i subj diff,
  (f <= f')%nat -> b_verdict (bif f i subj new diff) <> OutOfFuel ->
  bif f' i subj new diff = bif f i subj new diff.
Proof.
  induction f as [|f IH]; intros f' i subj diff Hle Hv; [cbn in Hv; congruence|].
  destruct f' as [|f']; [lia|]. cbn [bifurcate] in Hv |- *.
  destruct (get i _) as [c|]; [|reflexivity].
  destruct (negb (h_nil c) && _); [reflexivity|].
  destruct (V subj c) as [e|].
  - destruct (ve_soft e); [|reflexivity]. cbn in Hv. rewrite IH; [reflexivity | lia | exact Hv].
  - destruct (V c new); [|reflexivity]. destruct (_ <=? 1); [reflexivity|].
    cbn in Hv. rewrite IH; [reflexivity | lia | exact Hv].
Qed.

Lemma bif_replay new f : forall i subj seen diff,
  let r := bif f i subj new diff in
  b_verdict r <> OutOfFuel -> existsb (N.eqb (h_id subj)) seen = true ->
  exists seen',
    replay now drift tv get i subj seen (b_calls r) =
      Some (last (b_promoted r) subj, seen', is_getter_fail (b_verdict r)) /\
    (forall x, existsb (N.eqb x) seen = true \/ In x (map h_id (b_promoted r)) ->
               existsb (N.eqb x) seen' = true).
Proof.
  induction f as [|f IH]; intros i subj seen diff; cbn [bifurcate]; [cbn; congruence|].
  set (ch := wrap64 (h_height subj + diff / 2)).
  assert (Hstay : forall x, existsb (N.eqb x) seen = true \/ In x (map h_id (@nil hdr)) -> existsb (N.eqb x) seen = true)
    by (intros x [H|[]]; exact H).
  assert (Hone : forall c x, existsb (N.eqb x) seen = true \/ In x (map h_id [c]) ->
                             existsb (N.eqb x) (h_id c :: seen) = true).
  { intros c x [H|[<-|[]]]; cbn; [rewrite H; apply orb_true_r | rewrite N.eqb_refl; reflexivity]. }
  destruct (get i ch) as [c|] eqn:Hg.
  2:{ intros _ Hs. exists seen. cbn. rewrite Hs, Hg. auto. }
  destruct (negb (h_nil c) && negb (h_height c =? ch)) eqn:Hchk.
  { intros _ Hs. exists seen. cbn. rewrite Hs, Hg, Hchk. auto. }
  destruct (V subj c) as [e|] eqn:Hv.
  - destruct (ve_soft e).
    + cbn [bcons b_verdict b_calls b_promoted replay]. intros Hoof Hs.
      rewrite Hs, Hg, Hchk, Hv. cbn [negb]. apply IH; assumption.
    + intros _ Hs. exists seen. cbn. rewrite Hs, Hg, Hchk, Hv. auto.
  - assert (Hc : existsb (N.eqb (h_id c)) (h_id c :: seen) = true)
      by (cbn; rewrite N.eqb_refl; reflexivity).
    destruct (V c new) as [e|] eqn:Hn.
    + destruct (_ <=? 1).
      * intros _ Hs. exists (h_id c :: seen). cbn [b_calls b_promoted b_verdict replay last].
        rewrite Hs, Hg, Hchk, Hv. cbn [negb is_getter_fail]. auto.
      * cbn [bcons b_verdict b_calls b_promoted replay]. intros Hoof Hs.
        rewrite Hs, Hg, Hchk, Hv. cbn [negb]. rewrite last_cons_default.
        destruct (IH (S i) c (h_id c :: seen) (sub64 (h_height new) (h_height c)) Hoof Hc) as (seen' & Hr & Hall).
        exists seen'. split; [exact Hr|]. intros x [H|[<-|H]].
        -- apply Hall. left. cbn. rewrite H. apply orb_true_r.
        -- apply Hall. left. exact Hc.
        -- apply Hall. right. exact H.
    + intros _ Hs. exists (h_id c :: seen). cbn [b_calls b_promoted b_verdict replay last].
      rewrite Hs, Hg, Hchk, Hv. cbn [negb is_getter_fail]. auto.
Qed.

End tie.

Lemma getter_budget g B j h : (B <= j)%nat -> getter g B j h = None.
Proof. intros H. unfold getter. destruct (Nat.ltb_spec j B); [lia | reflexivity]. Qed.

Lemma getter_heights g B : heights_honest g = true ->
  forall i h x, getter g B i h = Some x -> h_height x = h.
Proof.
  intros Hh i h x. unfold getter. destruct (i <? B)%nat; [|discriminate].
  unfold tab_lookup. destruct (find _ (g_over g)) as [p|] eqn:Hf.
  - apply find_some in Hf as [Hin Hk]. apply N.eqb_eq in Hk.
    unfold heights_honest in Hh. rewrite forallb_forall in Hh. specialize (Hh p Hin).
    intros Hp. rewrite Hp in Hh. apply N.eqb_eq in Hh. congruence.
  - destruct (_ && _); [|discriminate]. intros [= <-]. reflexivity.
Qed.

Lemma vobs_eqb_refl_verr e : vobs_eqb (VRefuse (obs_of (Some e))) (VRefuse (obs_of (Some e))) = true.
Proof.
  destruct e as [[s| id | |] soft]; cbn; rewrite ?N.eqb_refl, ?eqb_reflx; try reflexivity.
  destruct s; reflexivity.
Qed.

(** the fuel [budget + 1] given to the model in [run15] always suffices *)
Lemma model15_fuel c : b_verdict (run15 c) <> OutOfFuel.
Proof.
  unfold run15, incoming.
  set (B := N.to_nat (k_budget c)).
  assert (H : b_verdict (syncer_verify (k_now c) (k_drift c) (pol_tv (k_pol c)) (getter (k_get c) B) (S B)
                                       (k_subj c) (k_new c)) <> OutOfFuel).
  { unfold syncer_verify. destruct (Verify _ _ _ _ _) as [e|]; [|cbn; congruence].
    destruct (ve_soft e); [|cbn; congruence].
    apply bif_budget_fuel with (budget := B); [intros; apply getter_budget; assumption | lia]. }
  destruct (b_verdict (syncer_verify _ _ _ _ _ _ _)) eqn:Hv; cbn; congruence.
Qed.

(** *** completeness clause *)

(** a run only looks at the getter's answers to the requests it makes *)
Lemma bif_get_ext now drift tv (get get' : nat -> N -> option hdr) new fuel : forall i subj diff,
  (forall j h, (i <= j < i + fuel)%nat -> get j h = get' j h) ->
  bifurcate now drift tv get fuel i subj new diff = bifurcate now drift tv get' fuel i subj new diff.
Proof.
  induction fuel as [|f IH]; intros i subj diff Hext; [reflexivity|].
  cbn [bifurcate]. rewrite <- (Hext i) by lia.
  destruct (get i _) as [c|]; [|reflexivity].
  destruct (negb (h_nil c) && _); [reflexivity|].
  destruct (Verify now drift tv subj c) as [e|].
  - destruct (ve_soft e); [|reflexivity]. rewrite IH; [reflexivity|]. intros j h Hj. apply Hext. lia.
  - destruct (Verify now drift tv c new); [|reflexivity]. destruct (_ <=? 1); [reflexivity|].
    rewrite IH; [reflexivity|]. intros j h Hj. apply Hext. lia.
Qed.

Lemma hdr_eqb_true a b : hdr_eqb a b = true -> a = b.
Proof.
  destruct a, b. unfold hdr_eqb; cbn. intros H.
  repeat (apply andb_prop in H as [H ?]).
  repeat match goal with
         | X : Bool.eqb _ _ = true |- _ => apply eqb_prop in X
         | X : (_ =? _) = true |- _ => apply N.eqb_eq in X
         | X : (_ =? _)%Z = true |- _ => apply Z.eqb_eq in X
         end.
  subst. reflexivity.
Qed.

(** two headers of the harness chain pass the mandatory checks against each other *)
Lemma chain_mand_ok now drift t0 dt n a b :
  (0 <= dt)%Z -> (t0 + Z.of_N n * dt <= now + drift)%Z -> a < b -> b <= n ->
  verify_mand now drift (chain_hdr t0 dt a) (chain_hdr t0 dt b) = None.
Proof.
  intros Hdt Hfut Hab Hbn. apply verify_mand_none_iff. unfold mand_ok, chain_hdr; cbn.
  repeat split; auto; nia.
Qed.

Lemma tab_lookup_chain g s n a :
  forallb (fun p => (fst p <? s) || (n <? fst p)) (g_over g) = true ->
  g_lo g <= s -> n <= g_hi g -> s <= a <= n ->
  tab_lookup g a = Some (chain_hdr (g_t0 g) (g_dt g) a).
Proof.
  intros Hov Hlo Hhi Ha. unfold tab_lookup.
  destruct (find _ (g_over g)) as [p|] eqn:Hf.
  - exfalso. apply find_some in Hf as [Hin Hk]. apply N.eqb_eq in Hk.
    rewrite forallb_forall in Hov. specialize (Hov p Hin). lia.
  - destruct (N.leb_spec (g_lo g) a), (N.leb_spec a (g_hi g)); cbn; try lia. reflexivity.
Qed.

Lemma model15_complete c :
  complete_applies (k_now c) (k_drift c) (k_pol c) (k_subj c) (k_new c) (k_get c) (k_budget c) = true ->
  b_verdict (run15 c) = Accept.
Proof.
  unfold complete_applies. intros H.
  repeat (apply andb_prop in H as [H ?]).
  set (now := k_now c) in *. set (drift := k_drift c) in *. set (g := k_get c) in *.
  set (subj := k_subj c) in *. set (new := k_new c) in *. set (tv := pol_tv (k_pol c)) in *.
  set (s := h_height subj) in *. set (n := h_height new) in *.
  set (cc := chain_hdr (g_t0 g) (g_dt g)) in *.
  match goal with X : hdr_eqb subj (cc s) = true |- _ => apply hdr_eqb_true in X; rename X into Hsubj end.
  match goal with X : (s <? n) = true |- _ => apply N.ltb_lt in X; rename X into Hsn end.
  match goal with X : (n <? two64) = true |- _ => apply N.ltb_lt in X; rename X into Hn64 end.
  match goal with X : (g_lo g <=? s) = true |- _ => apply N.leb_le in X; rename X into Hlo end.
  match goal with X : (n <=? g_hi g) = true |- _ => apply N.leb_le in X; rename X into Hhi end.
  match goal with X : (0 <=? g_dt g)%Z = true |- _ => apply Z.leb_le in X; rename X into Hdt end.
  match goal with X : (_ <=? now + drift)%Z = true |- _ => apply Z.leb_le in X; rename X into Hfut end.
  match goal with X : (bound (n - s) <=? k_budget c) = true |- _ => apply N.leb_le in X; rename X into Hbud end.
  match goal with X : forallb _ _ = true |- _ => rename X into Hov end.
  set (B := N.to_nat (k_budget c)).
  set (F := fuel_bound (n - s)).
  assert (HFB : (F <= B)%nat) by (unfold F, B, fuel_bound; lia).
  set (get' := fun (_ : nat) (h : N) => tab_lookup g h).
  (* the run against the getter without budget *)
  assert (Hacc : b_verdict (syncer_verify now drift tv get' F (cc s) new) = Accept).
  { apply (honest_complete now drift tv get' cc s new); fold n; auto.
    - intros i a Ha. unfold get'. apply tab_lookup_chain with (s := s) (n := n); auto.
    - intros a Hsa Han. unfold Verify, cc.
      rewrite (chain_mand_ok now drift (g_t0 g) (g_dt g) n a (a + 1)) by (auto; lia).
      unfold tv, pol_tv, cc, chain_hdr; cbn [h_height h_prev h_id].
      rewrite wrap64_small by lia. rewrite N.eqb_refl.
      replace (a + 1 - 1) with a by lia. rewrite N.eqb_refl. reflexivity.
    - intros a b e Hsa Hab Hbn. unfold Verify, cc.
      rewrite (chain_mand_ok now drift (g_t0 g) (g_dt g) n a b) by (auto; lia).
      unfold tv, pol_tv, adjacent, cc, chain_hdr; cbn [h_height h_prev h_id].
      destruct (N.eqb_spec b (wrap64 (a + 1))) as [E|E].
      + rewrite wrap64_small in E by lia. subst b. replace (a + 1 - 1) with a by lia.
        rewrite N.eqb_refl. discriminate.
      + destruct (existsb _ _); [intros [= <-]; reflexivity|].
        destruct (trusts _ _ _); [discriminate | intros [= <-]; reflexivity].
    - intros e He. rewrite <- Hsubj in He.
      match goal with X : match Verify now drift tv subj new with _ => _ end = true |- _ => rewrite He in X; exact X end.
    - match goal with X : match Verify now drift tv (cc (n - 1)) new with _ => _ end = true |- _ =>
        destruct (Verify now drift tv (cc (n - 1)) new); [discriminate | reflexivity] end. }
  (* the budgeted getter answers the same on the first F requests *)
  assert (Hsame : syncer_verify now drift tv (getter g B) F subj new = syncer_verify now drift tv get' F (cc s) new).
  { rewrite <- Hsubj. unfold syncer_verify. destruct (Verify now drift tv subj new) as [e|]; [|reflexivity].
    destruct (ve_soft e); [|reflexivity]. apply bif_get_ext. intros j h Hj. unfold getter, get'.
    destruct (Nat.ltb_spec j B); [reflexivity | lia]. }
  (* more fuel changes nothing *)
  assert (Hmore : syncer_verify now drift tv (getter g B) (S B) subj new = syncer_verify now drift tv (getter g B) F subj new).
  { assert (Hno : b_verdict (syncer_verify now drift tv (getter g B) F subj new) <> OutOfFuel) by (rewrite Hsame, Hacc; discriminate).
    revert Hno. unfold syncer_verify. destruct (Verify now drift tv subj new) as [e|]; [|reflexivity].
    destruct (ve_soft e); [|reflexivity]. intros Hno. apply bif_fuel_mono; [lia | exact Hno]. }
  unfold run15, incoming. fold now drift tv g subj new B. rewrite Hmore, Hsame, Hacc. reflexivity.
Qed.


(** *** what the tie needs to know about the model's run on a case *)
Lemma run_facts c :
  let now := k_now c in let drift := k_drift c in let tv := pol_tv (k_pol c) in
  let B := N.to_nat (k_budget c) in let get := getter (k_get c) B in
  let subj := k_subj c in let new := k_new c in
  let r0 := syncer_verify now drift tv get (S B) subj new in
  b_verdict r0 <> OutOfFuel /\
  (b_verdict r0 = Accept <-> Verify now drift tv (last (b_promoted r0) subj) new = None) /\
  match Verify now drift tv subj new with
  | None => r0 = BRun Accept [] []
  | Some e => ve_soft e = false -> r0 = BRun (Refuse (FDirect e)) [] []
  end /\
  (exists seen', replay now drift tv get 0 subj [h_id subj] (b_calls r0) =
                   Some (last (b_promoted r0) subj, seen', is_getter_fail (b_verdict r0)) /\
                 forall x, x = h_id subj \/ In x (map h_id (b_promoted r0)) -> existsb (N.eqb x) seen' = true) /\
  ((h_height subj <=? h_height new) && (h_height new <? two64) = true ->
   N.of_nat (length (b_calls r0)) <= bound (h_height new - h_height subj)) /\
  (complete_applies now drift (k_pol c) subj new (k_get c) (k_budget c) = true -> b_verdict r0 = Accept).
Proof.
  intros now drift tv B get subj new r0.
  assert (Hoof0 : b_verdict r0 <> OutOfFuel).
  { pose proof (model15_fuel c) as Hoof. unfold run15, incoming in Hoof.
    fold now drift tv B get subj new r0 in Hoof.
    destruct (b_verdict r0) eqn:E; [congruence | congruence | rewrite E in Hoof; exact Hoof]. }
  destruct (sverify_spec now drift tv get new (S B) subj) as (_ & _ & Hiff). fold r0 in Hiff.
  specialize (Hiff Hoof0).
  pose proof (sverify_direct now drift tv get new (S B) subj) as Hdir. cbn zeta in Hdir. fold r0 in Hdir.
  split; [exact Hoof0|]. split; [exact Hiff|]. split; [exact Hdir|]. split; [|split].
  - assert (Hsubj : existsb (N.eqb (h_id subj)) [h_id subj] = true) by (cbn; rewrite N.eqb_refl; reflexivity).
    assert (Htriv : forall x, x = h_id subj \/ In x (map h_id (@nil hdr)) -> existsb (N.eqb x) [h_id subj] = true)
      by (intros x [->|[]]; exact Hsubj).
    revert Hoof0. unfold r0, syncer_verify. destruct (Verify now drift tv subj new) as [e|];
      [|intros _; exists [h_id subj]; auto].
    destruct (ve_soft e); [|intros _; exists [h_id subj]; auto]. intros Hv.
    destruct (bif_replay now drift tv get new (S B) 0%nat subj [h_id subj] _ Hv Hsubj) as (seen' & Hr & Hall).
    exists seen'. split; [exact Hr|]. intros x [->|H]; apply Hall; [left; exact Hsubj | right; exact H].
  - intros Hc. apply andb_prop in Hc as [Hs Hn].
    apply N.ltb_lt in Hn. apply N.leb_le in Hs.
    set (F := Nat.max (S B) (fuel_bound (h_height new - h_height subj))).
    assert (Hsame : syncer_verify now drift tv get F subj new = r0).
    { revert Hoof0. unfold r0, syncer_verify. destruct (Verify now drift tv subj new) as [e|]; [|reflexivity].
      destruct (ve_soft e); [|reflexivity]. intros Hv. apply bif_fuel_mono; [unfold F; lia | exact Hv]. }
    destruct (sverify_terminates now drift tv get new F subj Hn) as [_ Hb].
    + unfold F. lia.
    + rewrite Hsame in Hb. exact Hb.
  - intros Hc. pose proof (model15_complete c Hc) as Ha. unfold run15 in Ha.
    destruct (incoming_unfold now drift tv get new (S B) subj) as (Hv & _ & _).
    fold now drift tv B get subj new in Ha. rewrite Hv in Ha. exact Ha.
Qed.

Lemma bound_clause (b : bool) (x y : N) : (b = true -> x <= y) -> negb b || (x <=? y) = true.
Proof. destruct b; [|reflexivity]. intros H. cbn. apply N.leb_le. apply H. reflexivity. Qed.

Theorem model15_ok : forall c,
  let '(v, calls, hd, ret, st) := model15 c in
  ok_all (k_now c) (k_drift c) (k_pol c) (k_path c) (k_store c) (k_subj c) (k_new c) (k_get c) (k_budget c)
         v ret calls hd st = true.
Proof.
  intros c. unfold model15.
  pose proof (run_facts c) as F. cbn zeta in F.
  set (now := k_now c) in *. set (drift := k_drift c) in *. set (tv := pol_tv (k_pol c)) in *.
  set (B := N.to_nat (k_budget c)) in *. set (get := getter (k_get c) B) in *.
  set (subj := k_subj c) in *. set (new := k_new c) in *.
  set (r0 := syncer_verify now drift tv get (S B) subj new) in *.
  destruct F as (Hoof0 & Hiff & Hdir & (seen' & Hrep & Hall) & Hbound & Hcomp).
  pose proof (head_soft_spec now drift tv get new (S B) subj) as Hhs.
  destruct (head_soft now drift tv get (S B) subj new) as [r ans]. destruct Hhs as (-> & HansA & HansR).
  destruct (incoming_unfold now drift tv get new (S B) subj) as (Hv & Hc & Hp). fold r0 in Hv, Hc, Hp.
  set (r := incoming now drift tv get (S B) subj new) in *.
  assert (Hsubjseen : existsb (N.eqb (h_id subj)) seen' = true) by (apply Hall; left; reflexivity).
  assert (Hbc : negb ((h_height subj <=? h_height new) && (h_height new <? two64))
                || (N.of_nat (length (b_calls r)) <=? bound (h_height new - h_height subj)) = true).
  { rewrite Hc. apply bound_clause. exact Hbound. }
  unfold ok_all, ok_store, ok_head, ok_obs, ok_core.
  change (getter (k_get c) (N.to_nat (k_budget c))) with get.
  change (pol_tv (k_pol c)) with tv.
  rewrite Hbc, Hc, Hrep, Hv. unfold head_after. rewrite Hp.
  destruct (b_verdict r0) as [|f|] eqn:Hv0; [| |congruence].
  - (* Accept *)
    assert (Hl : Verify now drift tv (last (b_promoted r0) subj) new = None) by (apply Hiff; reflexivity).
    destruct (HansA Hv) as [-> _].
    rewrite Hl, last_last, !N.eqb_refl. cbn [is_getter_fail negb andb orb verdict_obs is_panic is_accept is_other Bool.eqb].
    rewrite !orb_true_r, !andb_true_r.
    assert (Hd : match Verify now drift tv subj new with
                 | Some e => ve_soft e || no_calls (b_calls r0)
                 | None => no_calls (b_calls r0) end = true /\
                 match Verify now drift tv subj new with
                 | Some e => ve_soft e || vobs_eqb VAccept (VRefuse (obs_of (Some e))) && no_calls (b_calls r0)
                 | None => no_calls (b_calls r0) end = true).
    { destruct (Verify now drift tv subj new) as [e|].
      - destruct (ve_soft e) eqn:Hs; [split; reflexivity|]. rewrite (Hdir eq_refl) in Hv0. discriminate.
      - rewrite Hdir. split; reflexivity. }
    destruct Hd as [Hd1 Hd2].
    assert (Hst : existsb (N.eqb (h_id (store_after (k_store c) (b_promoted r0 ++ [new]))))
                          (h_id (k_store c) :: seen')
                  || (h_id (store_after (k_store c) (b_promoted r0 ++ [new])) =? h_id new) = true).
    { destruct (store_after_in (k_store c) (b_promoted r0 ++ [new])) as [E|Hin].
      - rewrite E. cbn. rewrite N.eqb_refl. reflexivity.
      - apply in_app_or in Hin as [Hin|[E|[]]].
        + apply orb_true_intro. left. cbn. apply orb_true_intro. right. apply Hall. right. apply in_map. exact Hin.
        + rewrite <- E, N.eqb_refl. apply orb_true_r. }
    destruct (k_path c); rewrite ?Hd1, ?Hd2, Hst; reflexivity.
  - (* Refuse *)
    assert (Hl : Verify now drift tv (last (b_promoted r0) subj) new <> None).
    { intros H. apply Hiff in H. discriminate. }
    destruct (Verify now drift tv (last (b_promoted r0) subj) new) as [el|] eqn:Hle; [|congruence].
    assert (Hna : b_verdict r <> Accept) by (rewrite Hv; discriminate).
    rewrite (HansR Hna), app_nil_r. cbn [andb orb].
    assert (Hhd : existsb (N.eqb (h_id (last (b_promoted r0) subj))) seen' = true).
    { apply Hall. destruct (last_or_in (b_promoted r0) subj) as [E|Hin]; [left; rewrite E; reflexivity|].
      right. apply in_map. exact Hin. }
    assert (Hca : complete_applies now drift (k_pol c) subj new (k_get c) (k_budget c) = false).
    { destruct (complete_applies _ _ _ _ _ _ _); [discriminate (Hcomp eq_refl) | reflexivity]. }
    rewrite Hca, Hhd, Hsubjseen. cbn [negb orb andb].
    assert (Hacc : is_accept (verdict_obs (Refuse f)) = false) by (destruct f; reflexivity).
    assert (Hpan : is_panic (verdict_obs (Refuse f)) = false) by (destruct f; reflexivity).
    assert (Hrest : (if is_getter_fail (Refuse f) then negb (is_accept (verdict_obs (Refuse f)))
                     else negb (is_other (verdict_obs (Refuse f)))) = true) by (destruct f; reflexivity).
    rewrite Hrest, Hacc, Hpan. cbn [negb andb orb Bool.eqb].
    assert (Hd : match Verify now drift tv subj new with
                 | Some e => ve_soft e || no_calls (b_calls r0)
                 | None => no_calls (b_calls r0) end = true /\
                 match Verify now drift tv subj new with
                 | Some e => ve_soft e || vobs_eqb (verdict_obs (Refuse f)) (VRefuse (obs_of (Some e))) && no_calls (b_calls r0)
                 | None => false end = true).
    { destruct (Verify now drift tv subj new) as [e|].
      - destruct (ve_soft e) eqn:Hs; [split; reflexivity|].
        rewrite (Hdir eq_refl) in Hv0 |- *. cbn in Hv0. injection Hv0 as <-. cbn [b_calls no_calls verdict_obs orb].
        rewrite vobs_eqb_refl_verr. split; reflexivity.
      - rewrite Hdir in Hv0. discriminate. }
    destruct Hd as [Hd1 Hd2].
    assert (Hst : existsb (N.eqb (h_id (store_after (k_store c) (b_promoted r0)))) (h_id (k_store c) :: seen') = true).
    { destruct (store_after_in (k_store c) (b_promoted r0)) as [E|Hin].
      - rewrite E. cbn. rewrite N.eqb_refl. reflexivity.
      - cbn. apply orb_true_intro. right. apply Hall. right. apply in_map. exact Hin. }
    destruct (k_path c); rewrite ?Hd1, ?Hd2, Hst; reflexivity.
Qed.

(** hence: whenever the model reproduces the implementation's observation of a case,
    the property check holds of that observation *)
Lemma eobs_eqb_eq a b : eobs_eqb a b = true -> a = b.
Proof.
  destruct a as [|s x|e x|x|x|], b as [|s' x'|e' x'|x'|x'|]; cbn; try discriminate; try reflexivity.
  - intros H. apply andb_prop in H as [Hs Hx]. apply eqb_prop in Hx. subst.
    destruct s, s'; try discriminate; reflexivity.
  - intros H. apply andb_prop in H as [He Hx]. apply eqb_prop in Hx. apply N.eqb_eq in He. subst. reflexivity.
  - intros H. apply eqb_prop in H. subst. reflexivity.
  - intros H. apply eqb_prop in H. subst. reflexivity.
Qed.

Lemma vobs_eqb_eq a b : vobs_eqb a b = true -> a = b.
Proof.
  destruct a, b; cbn; try discriminate; try reflexivity.
  intros H. apply eobs_eqb_eq in H. subst. reflexivity.
Qed.

Lemma calls_eqb_eq (l1 l2 : list (N * N)) : list_eqb call_eqb l1 l2 = true -> l1 = l2.
Proof.
  revert l2. induction l1 as [|[a b] l1 IH]; intros [|[a' b'] l2]; cbn; try discriminate; [reflexivity|].
  intros H. apply andb_prop in H as [H1 H2]. apply andb_prop in H1 as [Ha Hb]. cbn in Ha, Hb.
  apply N.eqb_eq in Ha. apply N.eqb_eq in Hb. subst. f_equal. apply IH. exact H2.
Qed.

Theorem agree_implies_ok : forall c, fst (fst (chk15 c)) = true -> ok15 c = true.
Proof.
  intros c. unfold chk15, ok15. pose proof (model15_ok c) as Hok.
  destruct (model15 c) as [[[[v calls] hd] ret] st]. cbn [fst].
  intros H. apply andb_prop in H as [H Hs]. apply andb_prop in H as [H Hh]. apply andb_prop in H as [Hv Hc].
  apply calls_eqb_eq in Hc. apply N.eqb_eq in Hh. apply N.eqb_eq in Hs. subst.
  unfold ok_all in *. destruct (k_path c).
  - apply N.eqb_eq in Hv. subst. exact Hok.
  - apply vobs_eqb_eq in Hv. subst. exact Hok.
Qed.

Print Assumptions model15_ok.
Print Assumptions agree_implies_ok.
