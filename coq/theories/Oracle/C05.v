(** Correspondence oracle for C05 / C18: case types, replay of the observed
    request/answer log on the model, and the decidable property checks evaluated on
    the implementation's observations, and (at the end) the lemma tying the checks to
    the model: whenever the model reproduces an observation
    the property check accepts it. *)
From GH Require Import Base.Prelude Model.Verify Model.Session Proofs.VerifyP Proofs.SessionP.

(** one request as the answering peer saw it (arrival order), with the frames it answered *)
Record logev := LogEv {
  l_peer : N; l_now : Z; l_origin : N; l_amount : N; l_frames : list frame }.

(** projected result of GetRangeByHeight *)
Inductive obs :=
| OOk (l : list hdr)
| ORangeMixUp          (* errors.Is(err, header.ErrRangeMixUp) *)
| OCtx                 (* the caller's context ended: the call waited until the deadline *)
| OOther               (* any other error *)
| OPanic.

(** Gallina twin of vhdr.LinkPolicy(trust): adjacent headers must be hash-linked,
    non-adjacent verification succeeds iff the gap is within [trust] (0 = unlimited) *)
Definition vhdr_tv (trust : N) (t u : hdr) : tvres :=
  if h_height u =? wrap64 (h_height t + 1) then
    (if h_prev u =? h_id t then TVOk else TVPlain 1)
  else if negb (trust =? 0) && (trust <? sub64 (h_height u) (h_height t)) then TVPlain 2
  else TVOk.

(** Gallina twin of the drivers' panicPolicy: LinkPolicy, except that the type-level Verify
    PANICS on marked headers (the mark is in the timestamp): T mod 10 = 7: whatever the trusted
    header; T mod 10 = 3: only when the marked header is adjacent to the trusted one *)
Definition vhdr_tvp (trust : N) (t u : hdr) : tvres_p :=
  if (h_time u mod 10 =? 7)%Z then TVPanics
  else if (h_time u mod 10 =? 3)%Z && (h_height u =? wrap64 (h_height t + 1)) then TVPanics
  else TVRes (vhdr_tv trust t u).

(** ... with its panics recovered: the verifier the theorems are instantiated with *)
Definition vhdr_rtv (trust : N) : hdr -> hdr -> tvres := recovered (vhdr_tvp trust).

Record case05 := Case05 {
  k_drift : Z; k_trust : N; k_maxcap : N; k_per : N;
  k_from : hdr; k_to : N; k_peers : list N;
  k_log : list logev; k_obs : obs }.

Definition log_events (l : list logev) : list event :=
  flat_map (fun e => [EDispatch (l_peer e) (Req (l_origin e) (l_amount e));
                      ERespond (l_peer e) (l_now e) (l_frames e)]) l.

(** replay: every logged request must be one the model has queued, sent to a peer the
    model has idle, while the call has not returned *)
Fixpoint replay (drift : Z) (tv : hdr -> hdr -> tvres_p) (maxcap : N) (from : hdr)
         (s : sess) (l : list logev) : sess * bool :=
  match l with
  | [] => (s, true)
  | e :: rest =>
    let r := Req (l_origin e) (l_amount e) in
    match s_res s with
    | Some _ => (s, false)
    | None =>
      if existsb (N.eqb (l_peer e)) (s_idle s) && existsb (req_eqb r) (s_queue s) then
        replay drift tv maxcap from
               (step_p drift tv maxcap from
                     (step_p drift tv maxcap from s (EDispatch (l_peer e) r))
                     (ERespond (l_peer e) (l_now e) (l_frames e))) rest
      else (s, false)
    end
  end.

(** the drivers' peers answer only after a virtual minute once they have got this many
    requests in one call (sess.Watchdog): a session whose only usable peers say NOT_FOUND
    re-sends at once for ever, and virtual time would never reach the caller's deadline *)
Definition watchdog : nat := 150.
Definition watchdog_hit (l : list logev) : bool :=
  existsb (fun e => Nat.leb watchdog (length (filter (fun e' => l_peer e' =? l_peer e) l))) l.

(** what the caller observes of a model state when nothing more happens (the deadline of
    the caller's context is the only event left). In virtual time the deadline fires only
    when nothing else can run, so a waiting state must be quiescent: no answer pending, no
    dispatch possible -- unless the watchdog slowed the peers down ([wd]). *)
Definition model_obs (wd : bool) (s : sess) : option obs :=
  match s_res s with
  | Some (ROk l) => Some (OOk l)
  | Some (RErr ERangeMixUp) => Some ORangeMixUp
  | Some (RErr ECtx) => Some OCtx
  | Some (RErr EClosed) | Some (RErr ENotChain) => Some OOther
  | Some RPanic => Some OPanic
  | Some RFuel => None
  | None =>
    (* still waiting: must be quiescent (no answer pending, no dispatch possible) *)
    match s_flight s with
    | [] => match s_queue s, s_idle s with
            | _ :: _, _ :: _ => if wd then Some OCtx else None
            | _, _ => Some OCtx
            end
    | _ => if wd then Some OCtx else None
    end
  end.

Definition obs_eqb (a b : obs) : bool :=
  match a, b with
  | OOk l, OOk l' => list_eqb hdr_eqb l l'
  | ORangeMixUp, ORangeMixUp | OCtx, OCtx | OOther, OOther | OPanic, OPanic => true
  | _, _ => false
  end.

Definition model05 (c : case05) : option obs :=
  let tv := vhdr_tvp (k_trust c) in
  let '(s, consistent) :=
    replay (k_drift c) tv (k_maxcap c) (k_from c)
           (get_range (k_maxcap c) (k_per c) (k_from c) (k_to c) (k_peers c)) (k_log c) in
  if consistent then model_obs (watchdog_hit (k_log c)) s else None.

Definition agree05 (c : case05) : bool :=
  match model05 c with
  | Some o => obs_eqb o (k_obs c)
  | None => false
  end.

(** ** the property C05, restated on the observation *)

(** every header any peer put on the wire, and every clock reading of an answer *)
Definition sent_log (l : list logev) : list hdr := flat_map (fun e => frame_hdrs (l_frames e)) l.
Definition nows_log (l : list logev) : list Z := map l_now l.

Definition verified_b (drift : Z) (tv : hdr -> hdr -> tvres) (nows : list Z) (t u : hdr) : bool :=
  existsb (fun now => match Verify now drift tv t u with None => true | Some _ => false end) nows.

(** one Verify chain: each header passed Verify against the one before it, the first against [from] *)
Fixpoint chain_b (V : hdr -> hdr -> bool) (prev : hdr) (l : list hdr) : bool :=
  match l with
  | [] => true
  | u :: r => V prev u && chain_b V u r
  end.

Definition degenerate (c : case05) : bool := k_to c <=? h_height (k_from c) + 1.

Definition shape_ok (c : case05) (res : list hdr) : bool :=
  let hf := h_height (k_from c) in
  let tv := vhdr_rtv (k_trust c) in
  match res with [] => false | _ => true end
  && list_eqb N.eqb (map h_height res) (seqN (hf + 1) (length res))
  && (hf + 1 + N.of_nat (length res) <=? k_to c)
  && forallb (fun h => existsb (hdr_eqb h) (sent_log (k_log c)) && h_ok h) res
  && chain_b (verified_b (k_drift c) tv (nows_log (k_log c))) (k_from c) res.

(** a range longer than the largest slice: the caller's own absurd request, outside the property *)
Definition beyond_slices (c : case05) : bool :=
  negb (degenerate c) && (k_maxcap c <? k_to c - (h_height (k_from c) + 1)).

Definition ok05 (c : case05) : bool :=
  match k_obs c with
  | OOk res => negb (degenerate c) && shape_ok c res
  | ORangeMixUp | OOther => true          (* an error, returned without waiting *)
  | OCtx => negb (degenerate c)           (* a degenerate request must not hang until the deadline *)
  | OPanic => beyond_slices c             (* no peer answer may crash the client *)
  end.

(** the inputs are uint64 values, [from] is a header, the chunk size passed ClientParameters.Validate *)
Definition wf05 (c : case05) : bool :=
  negb (h_nil (k_from c)) && (h_height (k_from c) <? two64) && (k_to c <? two64) && (1 <=? k_per c).

Definition chk05 (c : case05) : bool * bool * N := (wf05 c && agree05 c, ok05 c, 0).

(** ** the oracle accepts whatever the model produces *)

Lemma list_eqb_eq {A} (eqb : A -> A -> bool) :
  (forall a b, eqb a b = true -> a = b) -> forall l1 l2, list_eqb eqb l1 l2 = true -> l1 = l2.
Proof.
  intros He. induction l1 as [|a l1 IH]; intros [|b l2]; cbn; try discriminate; [reflexivity|].
  intros H. apply andb_prop in H as [H1 H2]. f_equal; [apply He, H1 | apply IH, H2].
Qed.

Lemma list_eqb_refl {A} (eqb : A -> A -> bool) :
  (forall a, eqb a a = true) -> forall l, list_eqb eqb l l = true.
Proof. intros He. induction l as [|a l IH]; cbn; [reflexivity | rewrite He, IH; reflexivity]. Qed.

Lemma replay_run drift tv maxcap from l : forall s s',
  replay drift tv maxcap from s l = (s', true) -> s' = run_p drift tv maxcap from s (log_events l).
Proof.
  induction l as [|e l IH]; intros s s'; cbn [replay log_events flat_map].
  - intros [= <-]. reflexivity.
  - destruct (s_res s); [discriminate|].
    destruct (_ && _); [|discriminate].
    intros H. apply IH in H. cbn [app run_p]. exact H.
Qed.

Lemma log_events_hdrs l : evs_hdrs (log_events l) = sent_log l.
Proof.
  induction l as [|e l IH]; [reflexivity|].
  unfold evs_hdrs, log_events, sent_log in *. cbn [flat_map app ev_hdrs]. rewrite IH. reflexivity.
Qed.

Lemma log_events_nows l : evs_nows (log_events l) = nows_log l.
Proof.
  induction l as [|e l IH]; [reflexivity|].
  unfold evs_nows, log_events, nows_log in *. cbn [flat_map app ev_nows map]. rewrite IH. reflexivity.
Qed.

Lemma verified_b_complete drift tv nows t u :
  (exists now, In now nows /\ Verify now drift tv t u = None) -> verified_b drift tv nows t u = true.
Proof.
  intros (now & Hin & Hv). unfold verified_b. apply existsb_exists. exists now. split; [exact Hin|].
  rewrite Hv. reflexivity.
Qed.

Lemma chain_b_complete (W : hdr -> hdr -> Prop) (Wb : hdr -> hdr -> bool) :
  (forall t u, W t u -> Wb t u = true) ->
  forall l prev, chain W prev l -> chain_b Wb prev l = true.
Proof.
  intros HW. induction l as [|u l IH]; intros prev; cbn [chain chain_b]; [reflexivity|].
  intros [H Hl]. rewrite (HW _ _ H). cbn. apply IH, Hl.
Qed.

Theorem chk05_sound : forall c, wf05 c && agree05 c = true -> ok05 c = true.
Proof.
  intros c Hwa. apply andb_prop in Hwa as [Hwf Hagree].
  unfold wf05 in Hwf.
  apply andb_prop in Hwf as [Hwf Hper]. apply andb_prop in Hwf as [Hwf Ht]. apply andb_prop in Hwf as [Hwf Hf].
  apply negb_true_iff in Hwf. apply N.ltb_lt in Hf, Ht. apply N.leb_le in Hper.
  unfold agree05, model05 in Hagree.
  destruct (replay _ _ _ _ _ _) as [s consistent] eqn:Hrep.
  destruct consistent; [|discriminate].
  apply replay_run in Hrep.
  set (tv := vhdr_rtv (k_trust c)) in *.
  destruct (model_obs (watchdog_hit (k_log c)) s) as [o|] eqn:Hmo; [|discriminate].
  rewrite (run_p_eq (k_drift c) (vhdr_tvp (k_trust c)) (k_maxcap c) (k_from c)) in Hrep.
  fold (vhdr_rtv (k_trust c)) in Hrep. fold tv in Hrep.
  assert (Hout : s_res s = GetRangeByHeight (k_drift c) tv (k_maxcap c) (k_per c) (k_from c) (k_to c) (k_peers c)
                                            (log_events (k_log c))) by (unfold GetRangeByHeight; rewrite Hrep; reflexivity).
  unfold ok05. destruct (k_obs c) as [res| | | |] eqn:Hobs; try reflexivity.
  - (* headers *)
    destruct o as [l| | | |]; try discriminate. cbn [obs_eqb] in Hagree.
    apply (list_eqb_eq hdr_eqb hdr_eqb_eq) in Hagree. subst l.
    unfold model_obs in Hmo. destruct (s_res s) as [[l|[]| |]|] eqn:Hres; try discriminate.
    2:{ destruct (s_flight s); [destruct (s_queue s), (s_idle s)|]; destruct (watchdog_hit (k_log c)); discriminate. }
    injection Hmo as ->. symmetry in Hout.
    destruct (result_shape _ _ _ _ _ _ _ _ _ Hwf Hf Ht Hper Hout) as (Hlt & Hne' & Hh & Hall & Hlink).
    assert (Hlen : length res = N.to_nat (k_to c - (h_height (k_from c) + 1))).
    { rewrite <- (map_length h_height res), Hh. apply seqN_length. }
    apply andb_true_intro. split.
    { unfold degenerate. apply negb_true_iff, N.leb_gt. exact Hlt. }
    unfold shape_ok. repeat (apply andb_true_intro; split).
    + destruct res; [contradiction | reflexivity].
    + rewrite Hh, Hlen. apply list_eqb_refl, N.eqb_refl.
    + apply N.leb_le. rewrite Hlen. lia.
    + apply forallb_forall. intros h Hin. destruct (Hall h Hin) as (_ & Hok & Hsent).
      rewrite Hok, andb_true_r. apply existsb_exists. exists h. split; [|apply hdr_eqb_refl].
      rewrite <- log_events_hdrs. exact Hsent.
    + eapply chain_b_complete; [|exact Hlink].
      intros t u Hv. apply verified_b_complete. unfold verified_during in Hv.
      rewrite log_events_nows in Hv. exact Hv.
  - (* the context ended: not for a degenerate request *)
    apply negb_true_iff. unfold degenerate. apply N.leb_gt.
    destruct (N.le_gt_cases (k_to c) (h_height (k_from c) + 1)) as [Hdeg|]; [exfalso | assumption].
    pose proof (degenerate_is_error (k_drift c) tv (k_maxcap c) (k_per c) (k_from c) (k_to c) (k_peers c)
                                    (log_events (k_log c)) Hf Hdeg) as Herr.
    rewrite <- Hout in Herr. unfold model_obs in Hmo. rewrite Herr in Hmo. injection Hmo as <-. discriminate.
  - (* a panic: only for a range beyond the largest slice *)
    destruct o; try discriminate.
    unfold model_obs in Hmo. destruct (s_res s) as [[l|[]| |]|] eqn:Hres; try discriminate.
    2:{ destruct (s_flight s); [destruct (s_queue s), (s_idle s)|]; destruct (watchdog_hit (k_log c)); discriminate. }
    symmetry in Hout. unfold beyond_slices, degenerate.
    destruct (N.leb_spec (k_to c) (h_height (k_from c) + 1)) as [Hdeg|Hnd].
    + rewrite (degenerate_is_error _ _ _ _ _ _ _ _ Hf Hdeg) in Hout. discriminate.
    + cbn [negb andb]. apply N.ltb_lt.
      destruct (N.le_gt_cases (k_to c - (h_height (k_from c) + 1)) (k_maxcap c)) as [Hcap|Hcap]; [exfalso | exact Hcap].
      destruct (no_response_crashes (k_drift c) tv (k_maxcap c) (k_per c) (k_from c) (k_to c) (k_peers c)
                                    (log_events (k_log c)) Hwf Hf Ht Hper Hcap) as [Hp _].
      exact (Hp Hout).
Qed.

(** * C18: honest servers *)

(** the chain as a function of the height (heights start at 1) *)
Definition cn (l : list hdr) (n : N) : hdr :=
  if n =? 0 then hdr_nil else nth (N.to_nat (n - 1)) l hdr_nil.

Inductive case18 :=
| Range18 (base : case05)        (* one GetRangeByHeight: parameters, the proxies' log, the result *)
          (chain : list hdr)     (* heights 1..L; every server's store is a prefix of it *)
          (avs : list N)         (* head of the answering server's store at each logged answer *)
          (rel : N)              (* a peer without injected faults *)
| One18 (want : option N)        (* the client's configured chain id *)
        (served : hdr)           (* the header in the server's store that was asked for *)
        (answers : list (list frame))  (* what each trusted server put on the wire, in arrival order *)
        (got : option hdr).      (* what Head / Get / GetByHeight returned (None = error) *)

(** the reliable peer's answers are never empty *)
Definition reliable_b (rel : N) (l : list logev) : bool :=
  forallb (fun e => negb (l_peer e =? rel) || match l_frames e with [] => false | _ => true end) l.

Definition chain_verifies_b (drift : Z) (tv : hdr -> hdr -> tvres) (from : hdr) (chain : list hdr) (now : Z) : bool :=
  let top := N.of_nat (length chain) in
  forallb (fun n =>
    negb (h_height from <? n) || (top <? n) ||
    (match Verify now drift tv from (cn chain n) with None => true | _ => false end
     && ((top <? n + 1) ||
         match Verify now drift tv (cn chain n) (cn chain (n + 1)) with None => true | _ => false end)))
    (seqN 0 (S (length chain))).

(** the chain is well formed and passes verification at the logged clock readings *)
Definition chain_ok_b (drift : Z) (tv : hdr -> hdr -> tvres) (from : hdr) (chain : list hdr)
           (nows : list Z) : bool :=
  forallb (fun n => (h_height (cn chain n) =? n) && h_ok (cn chain n)) (seqN 0 (S (length chain)))
  && forallb (chain_verifies_b drift tv from chain) (nodup Z.eq_dec nows).

Definition expected18 (c : case05) (chain : list hdr) : list hdr :=
  map (cn chain) (seqN (h_height (k_from c) + 1) (N.to_nat (k_to c - (h_height (k_from c) + 1)))).

Definition agree18 (c : case18) : bool :=
  match c with
  | Range18 b chain avs rel =>
    let tv := vhdr_rtv (k_trust b) in
    wf05 b && agree05 b
    && (h_height (k_from b) + 1 <? two64) && (N.of_nat (length chain) <? two64)
    && negb (degenerate b) && (k_to b - (h_height (k_from b) + 1) <=? k_maxcap b)
    && negb (watchdog_hit (k_log b))
    && existsb (N.eqb rel) (k_peers b)
    && honest_evs_b (k_drift b) tv (k_maxcap b) (k_from b) (cn chain) (N.of_nat (length chain))
                    (get_range (k_maxcap b) (k_per b) (k_from b) (k_to b) (k_peers b))
                    (log_events (k_log b)) avs
    && reliable_b rel (k_log b)
    && chain_ok_b (k_drift b) tv (k_from b) chain (nows_log (k_log b))
  | One18 want served answers got =>
    (* every server answered honestly (the stored header unchanged, NOT_FOUND, or nothing), one of them
       holds the header, and the client's processing of the answers in arrival order is the model's *)
    forallb (fun fs => match fs with
                       | [FHdr h] => hdr_eqb h served
                       | [FNotFound] | [] => true
                       | _ => false
                       end) answers
    && existsb (fun fs => match fs with [FHdr _] => true | _ => false end) answers
    && h_ok served && match want with Some w => w =? h_chain served | None => true end
    && option_eqb hdr_eqb (perform_request want answers) got
  end.

(** the property: exactly the chain's headers from+1 .. to-1, ascending; the served header unchanged *)
Definition ok18 (c : case18) : bool :=
  match c with
  | Range18 b chain _ _ =>
    match k_obs b with
    | OOk res => list_eqb hdr_eqb res (expected18 b chain)
    | _ => false
    end
  | One18 _ served _ got => option_eqb hdr_eqb got (Some served)
  end.

Definition chk18 (c : case18) : bool * bool * N := (agree18 c, ok18 c, 0).

(** ** the C18 oracle accepts whatever the model produces *)

Lemma seqN_In x s n : s <= x -> x < s + N.of_nat n -> In x (seqN s n).
Proof. intros H1 H2. apply cnt_pos_In. rewrite cnt_seqN, ind_in by assumption. lia. Qed.

Lemma log_events_kinds l ev : In ev (log_events l) ->
  exists e, In e l /\ (ev = EDispatch (l_peer e) (Req (l_origin e) (l_amount e)) \/
                       ev = ERespond (l_peer e) (l_now e) (l_frames e)).
Proof.
  unfold log_events. intros H. apply in_flat_map in H as (e & He & Hin).
  exists e. split; [exact He|]. destruct Hin as [<-|[<-|[]]]; auto.
Qed.

Lemma chain_verifies_b_sound drift tv from chain now :
  chain_verifies_b drift tv from chain now = true ->
  chain_verifies drift tv from (cn chain) (N.of_nat (length chain)) now.
Proof.
  unfold chain_verifies_b, chain_verifies. intros H n Hn Htop.
  rewrite forallb_forall in H. specialize (H n (seqN_In n 0 (S (length chain)) ltac:(lia) ltac:(lia))).
  apply orb_prop in H as [H|H].
  { apply orb_prop in H as [H|H].
    - apply negb_true_iff, N.ltb_ge in H. lia.
    - apply N.ltb_lt in H. lia. }
  apply andb_prop in H as [H1 H2]. split.
  - destruct (Verify now drift tv from (cn chain n)); [discriminate | reflexivity].
  - intros Hn1. apply orb_prop in H2 as [H2|H2]; [apply N.ltb_lt in H2; lia|].
    destruct (Verify now drift tv (cn chain n) (cn chain (n + 1))); [discriminate | reflexivity].
Qed.

Theorem chk18_sound : forall c, agree18 c = true -> ok18 c = true.
Proof.
  intros [b chain avs rel|want served answers got]; cbn [agree18 ok18].
  2:{ (* one header *)
    intros H. apply andb_prop in H as [H Hgot]. apply andb_prop in H as [H Hw]. apply andb_prop in H as [H Hok].
    apply andb_prop in H as [Hall Hex].
    assert (Hhon : Forall (honest_one served) answers).
    { apply Forall_forall. intros fs Hfs. rewrite forallb_forall in Hall. specialize (Hall fs Hfs).
      destruct fs as [|[h| | | | |] [|? ?]]; try discriminate; unfold honest_one; auto.
      apply hdr_eqb_eq in Hall. subst h. auto. }
    assert (Hin : In [FHdr served] answers).
    { apply existsb_exists in Hex as (fs & Hfs & Hk). rewrite forallb_forall in Hall. specialize (Hall fs Hfs).
      destruct fs as [|[h| | | | |] [|? ?]]; try discriminate. apply hdr_eqb_eq in Hall. subst h. exact Hfs. }
    rewrite (perform_request_honest want served answers Hok) in Hgot; [| |exact Hhon|exact Hin].
    - destruct got as [g|]; [|discriminate]. cbn in Hgot |- *. apply hdr_eqb_eq in Hgot. subst g. apply hdr_eqb_refl.
    - destruct want as [w|]; [|exact I]. apply N.eqb_eq in Hw. exact Hw. }
  intros H.
  apply andb_prop in H as [H Hchain]. apply andb_prop in H as [H Hrel]. apply andb_prop in H as [H Hhon].
  apply andb_prop in H as [H Hin]. apply andb_prop in H as [H Hwd]. apply andb_prop in H as [H Hcap]. apply andb_prop in H as [H Hnd].
  apply negb_true_iff in Hwd.
  apply andb_prop in H as [H Htop]. apply andb_prop in H as [H Hf1]. apply andb_prop in H as [Hwf Hagree].
  apply N.ltb_lt in Hf1, Htop. apply N.leb_le in Hcap. apply negb_true_iff in Hnd.
  unfold degenerate in Hnd. apply N.leb_gt in Hnd.
  unfold wf05 in Hwf.
  apply andb_prop in Hwf as [Hwf Hper]. apply andb_prop in Hwf as [Hwf Ht]. apply andb_prop in Hwf as [Hwf Hf].
  apply negb_true_iff in Hwf. apply N.ltb_lt in Hf, Ht. apply N.leb_le in Hper.
  set (tv := vhdr_rtv (k_trust b)) in *. set (c := cn chain) in *. set (top := N.of_nat (length chain)) in *.
  set (evs := log_events (k_log b)) in *.
  (* the chain *)
  unfold chain_ok_b in Hchain. apply andb_prop in Hchain as [Hwfc Hver].
  assert (Hch : forall n, n <= top -> h_height (c n) = n).
  { intros n Hn. rewrite forallb_forall in Hwfc.
    specialize (Hwfc n (seqN_In n 0 (S (length chain)) ltac:(lia) ltac:(subst top; lia))).
    apply andb_prop in Hwfc as [H1 _]. apply N.eqb_eq in H1. exact H1. }
  assert (Hokc : forall n, n <= top -> h_ok (c n) = true).
  { intros n Hn. rewrite forallb_forall in Hwfc.
    specialize (Hwfc n (seqN_In n 0 (S (length chain)) ltac:(lia) ltac:(subst top; lia))).
    apply andb_prop in Hwfc as [_ H2]. exact H2. }
  (* honest, reliable *)
  apply honest_evs_b_sound in Hhon.
  assert (Hreliable : reliable (k_drift b) tv (k_from b) c top rel evs).
  { intros now fs Hev. apply log_events_kinds in Hev as (e & He & [Hd|Hr]); [discriminate|].
    injection Hr as -> -> ->. split.
    - unfold reliable_b in Hrel. rewrite forallb_forall in Hrel. specialize (Hrel e He).
      rewrite N.eqb_refl in Hrel. cbn in Hrel. destruct (l_frames e); [discriminate | discriminate].
    - apply chain_verifies_b_sound. rewrite forallb_forall in Hver. apply Hver.
      apply nodup_In. unfold nows_log. apply in_map, He. }
  apply existsb_exists in Hin as (p' & Hp' & Heq). apply N.eqb_eq in Heq. subst p'.
  (* the model run *)
  unfold agree05, model05 in Hagree. fold tv in Hagree.
  destruct (replay _ _ _ _ _ _) as [s consistent] eqn:Hrep.
  destruct consistent; [|discriminate].
  apply replay_run in Hrep. fold evs in Hrep.
  rewrite Hwd in Hagree.
  destruct (model_obs false s) as [o|] eqn:Hmo; [|discriminate].
  rewrite (run_p_eq (k_drift b) (vhdr_tvp (k_trust b)) (k_maxcap b) (k_from b)) in Hrep.
  fold (vhdr_rtv (k_trust b)) in Hrep. fold tv in Hrep.

  assert (Hout : s_res s = GetRangeByHeight (k_drift b) tv (k_maxcap b) (k_per b) (k_from b) (k_to b) (k_peers b) evs).
  { unfold GetRangeByHeight. rewrite Hrep. reflexivity. }
  assert (Hnoctx : ~ In ECtxDone evs /\ ~ In EStop evs).
  { split; intros Hx; apply log_events_kinds in Hx as (e & _ & [Hd|Hr]); discriminate. }
  unfold model_obs in Hmo.
  destruct (s_res s) as [[l|e| |]|] eqn:Hres.
  - (* headers *)
    injection Hmo as <-. destruct (k_obs b) as [res| | | |]; try discriminate. cbn [obs_eqb] in Hagree.
    apply (list_eqb_eq hdr_eqb hdr_eqb_eq) in Hagree. subst res. symmetry in Hout.
    rewrite (exact_range _ _ _ _ _ _ _ c top evs l Hwf Hf1 Ht Hper Hch Hhon Hout).
    apply list_eqb_refl, hdr_eqb_refl.
  - exfalso. symmetry in Hout.
    destruct (errors_have_a_cause _ _ _ _ _ _ _ _ _ Hf Ht Hper Hout) as [(_ & Hd)|[(_ & Hx)|[(_ & Hx)|(-> & _)]]].
    + lia.
    + exact (proj1 Hnoctx Hx).
    + exact (proj2 Hnoctx Hx).
    + apply (honest_no_chain_error (k_drift b) tv (k_maxcap b) (k_per b) (k_from b) (k_to b) (k_peers b) c top evs
                                   Hwf Hf1 Ht Hper Hch Hhon); [|exact Hout].
      intros p0 now0 fs0 Hev. apply log_events_kinds in Hev as (e0 & He0 & [Hd0|Hr0]); [discriminate|].
      injection Hr0 as -> -> ->. apply chain_verifies_b_sound. rewrite forallb_forall in Hver. apply Hver.
      apply nodup_In. unfold nows_log. apply in_map, He0.
  - exfalso. symmetry in Hout.
    destruct (no_response_crashes (k_drift b) tv (k_maxcap b) (k_per b) (k_from b) (k_to b) (k_peers b) evs Hwf Hf Ht Hper) as [Hp _].
    { exact Hcap. }
    exact (Hp Hout).
  - discriminate.
  - (* still waiting, quiescent: impossible with the reliable peer *)
    exfalso.
    pose proof (no_deadlock (k_drift b) tv (k_maxcap b) (k_per b) (k_from b) (k_to b) (k_peers b) c top
                            Hwf Hf1 Ht Hper Htop Hch Hokc evs rel Hp' Hhon Hreliable) as Hnd'.
    cbv zeta in Hnd'. rewrite <- Hrep in Hnd'. specialize (Hnd' Hres).
    destruct (s_flight s) as [|x fl]; [|discriminate].
    destruct Hnd' as [Hx|(Hq & Hi)]; [congruence|].
    destruct (s_queue s) as [|q qs]; [congruence|]. destruct (s_idle s) as [|i is]; [destruct Hi | discriminate].
Qed.

(** * several calls on one Exchange; calls ended by the caller's context or by Exchange.Stop

    [case05m] is a world with one Exchange and a list of GetRangeByHeight calls made one after the
    other. Each call carries its own log; a call may carry an END MARKER: the caller's context was
    cancelled / Exchange.Stop was called after the last logged answer had been processed, while the
    call was still waiting (the gated drivers release one answer at a time). The marker is replayed
    as the model event [ECtxDone] / [EStop]. A peer whose answer was refused with an error other
    than NOT_FOUND / empty is blocked by the peer tracker (blockPeer): the next call's session
    starts without it. *)

Inductive endev := EndCtx | EndStop.

Definition end_event (e : endev) : event := match e with EndCtx => ECtxDone | EndStop => EStop end.

Record call05 := Call05 { q_from : hdr; q_to : N; q_log : list logev; q_end : option endev; q_obs : obs }.

Record case05m := Case05m {
  m_drift : Z; m_trust : N; m_maxcap : N; m_per : N; m_peers : list N; m_calls : list call05 }.

Definition base05 (c : case05m) (peers : list N) (q : call05) : case05 :=
  Case05 (m_drift c) (m_trust c) (m_maxcap c) (m_per c) (q_from q) (q_to q) peers (q_log q) (q_obs q).

(** the events of a call: its log, then its end marker *)
Definition call_events (l : list logev) (en : option endev) : list event :=
  log_events l ++ match en with Some e => [end_event e] | None => [] end.

(** with an end marker the call must still be waiting (model: no result yet) when it is ended *)
Definition model_call (b : case05) (en : option endev) : option obs :=
  match en with
  | None => model05 b
  | Some e =>
    let tv := vhdr_tvp (k_trust b) in
    let '(s, consistent) :=
      replay (k_drift b) tv (k_maxcap b) (k_from b)
             (get_range (k_maxcap b) (k_per b) (k_from b) (k_to b) (k_peers b)) (k_log b) in
    if consistent then
      match s_res s with
      | None => model_obs false (step_p (k_drift b) tv (k_maxcap b) (k_from b) s (end_event e))
      | Some _ => None
      end
    else None
  end.

(** peers blocked during a call: doRequest's default error branch (peerTracker.blockPeer) *)
Definition blocked_by (b : case05) : list N :=
  flat_map (fun e =>
    match do_request_p (l_now e) (k_drift b) (vhdr_tvp (k_trust b)) (k_from b)
                       (Req (l_origin e) (l_amount e)) (l_frames e) with
    | DErr POther => [l_peer e]
    | _ => []
    end) (k_log b).

Definition unblocked (b : case05) (peers : list N) : list N :=
  filter (fun p => negb (existsb (N.eqb p) (blocked_by b))) peers.

Fixpoint agree_calls (c : case05m) (peers : list N) (qs : list call05) : bool :=
  match qs with
  | [] => true
  | q :: rest =>
    let b := base05 c peers q in
    wf05 b
    && match model_call b (q_end q) with Some o => obs_eqb o (q_obs q) | None => false end
    && match q_end q with Some EndStop => is_nil rest | _ => true end   (* no call after Stop *)
    && agree_calls c (unblocked b peers) rest
  end.

Definition agree05m (c : case05m) : bool := agree_calls c (m_peers c) (m_calls c).

Definition ok05m (c : case05m) : bool := forallb (fun q => ok05 (base05 c [] q)) (m_calls c).

Definition chk05m (c : case05m) : bool * bool * N := (agree05m c, ok05m c, 0).

Lemma ok05_peers c ps q : ok05 (base05 c ps q) = ok05 (base05 c [] q).
Proof. reflexivity. Qed.

Lemma model_call_end_sound b e o :
  wf05 b = true -> model_call b (Some e) = Some o -> obs_eqb o (k_obs b) = true -> ok05 b = true.
Proof.
  intros Hwf Hm Ho. unfold model_call in Hm.
  destruct (replay _ _ _ _ _ _) as [s consistent] eqn:Hrep.
  destruct consistent; [|discriminate].
  destruct (s_res s) eqn:Hres; [discriminate|].
  unfold step_p in Hm. rewrite Hres in Hm.
  apply replay_run in Hrep.
  rewrite (run_p_eq (k_drift b) (vhdr_tvp (k_trust b)) (k_maxcap b) (k_from b)) in Hrep.
  unfold wf05 in Hwf.
  apply andb_prop in Hwf as [Hwf Hper]. apply andb_prop in Hwf as [Hwf Ht]. apply andb_prop in Hwf as [Hwf Hf].
  apply N.ltb_lt in Hf.
  unfold ok05.
  destruct e; cbn [end_event] in Hm; unfold set_res, model_obs in Hm; cbn [s_res] in Hm; injection Hm as <-;
    destruct (k_obs b) eqn:Hobs; try discriminate; try reflexivity.
  apply negb_true_iff. unfold degenerate. apply N.leb_gt.
  destruct (N.le_gt_cases (k_to b) (h_height (k_from b) + 1)) as [Hdeg|]; [exfalso | assumption].
  pose proof (degenerate_is_error (k_drift b) (recovered (vhdr_tvp (k_trust b))) (k_maxcap b) (k_per b) (k_from b)
                                  (k_to b) (k_peers b) (log_events (k_log b)) Hf Hdeg) as Herr.
  unfold GetRangeByHeight in Herr. rewrite <- Hrep in Herr. congruence.
Qed.

Lemma agree_calls_sound c : forall qs peers,
  agree_calls c peers qs = true -> forallb (fun q => ok05 (base05 c [] q)) qs = true.
Proof.
  induction qs as [|q qs IH]; intros peers H; [reflexivity|].
  cbn [agree_calls] in H. cbn [forallb].
  apply andb_prop in H as [H Hrest]. apply andb_prop in H as [H _]. apply andb_prop in H as [Hwf Hm].
  apply andb_true_intro. split; [|exact (IH _ Hrest)].
  rewrite <- (ok05_peers c peers q).
  destruct (model_call (base05 c peers q) (q_end q)) as [o|] eqn:Hmc; [|discriminate].
  destruct (q_end q) as [e|].
  - exact (model_call_end_sound _ e o Hwf Hmc Hm).
  - apply chk05_sound. rewrite Hwf. cbn [andb]. unfold agree05. cbn [model_call] in Hmc. rewrite Hmc. exact Hm.
Qed.

Theorem chk05m_sound : forall c, agree05m c = true -> ok05m c = true.
Proof. intros c H. exact (agree_calls_sound c _ _ H). Qed.

(** ** statements about the end events, for ALL event lists (Props/C05_more.v) *)

Lemma run_p_app drift tvp maxcap from : forall l1 l2 s,
  run_p drift tvp maxcap from s (l1 ++ l2) = run_p drift tvp maxcap from (run_p drift tvp maxcap from s l1) l2.
Proof. induction l1 as [|ev l1 IH]; intros l2 s; [reflexivity|]. cbn [app run_p]. apply IH. Qed.

Lemma run_p_done drift tvp maxcap from s evs r :
  s_res s = Some r -> run_p drift tvp maxcap from s evs = s.
Proof. intros Hr. rewrite run_p_eq. exact (run_done _ _ _ _ _ _ _ Hr). Qed.

(** while the call is waiting, the end of the caller's context makes it return the context's error,
    Exchange.Stop makes it return "exchange is closed" - whatever is queued or in flight *)
Lemma waiting_call_ends drift tvp maxcap per from to peers evs :
  GetRangeByHeight_p drift tvp maxcap per from to peers evs = None ->
  GetRangeByHeight_p drift tvp maxcap per from to peers (evs ++ [ECtxDone]) = Some (RErr ECtx) /\
  GetRangeByHeight_p drift tvp maxcap per from to peers (evs ++ [EStop]) = Some (RErr EClosed).
Proof.
  unfold GetRangeByHeight_p. intros H. rewrite !run_p_app. cbn [run_p]. unfold step_p. rewrite H.
  split; reflexivity.
Qed.

(** a returned call has returned: no later event (a late answer, the context, Stop) changes the result *)
Lemma result_is_final drift tvp maxcap per from to peers evs more r :
  GetRangeByHeight_p drift tvp maxcap per from to peers evs = Some r ->
  GetRangeByHeight_p drift tvp maxcap per from to peers (evs ++ more) = Some r.
Proof.
  unfold GetRangeByHeight_p. intros H. rewrite run_p_app. rewrite (run_p_done _ _ _ _ _ more r H). exact H.
Qed.

(** the context's error / "exchange is closed" is returned only if that event happened while the call waited *)
Lemma ctx_error_has_ctx_event drift tvp maxcap per from to peers evs :
  h_height from < two64 -> to < two64 -> 1 <= per ->
  (GetRangeByHeight_p drift tvp maxcap per from to peers evs = Some (RErr ECtx) -> In ECtxDone evs) /\
  (GetRangeByHeight_p drift tvp maxcap per from to peers evs = Some (RErr EClosed) -> In EStop evs).
Proof.
  intros Hf Ht Hper. rewrite outcome_p_eq.
  split; intros H;
    destruct (errors_have_a_cause _ _ _ _ _ _ _ _ _ Hf Ht Hper H) as [(He & _)|[(He & Hx)|[(He & Hx)|(He & _)]]];
    try discriminate; exact Hx.
Qed.

(** ** consecutive calls: a session only ever uses the peers it started with *)

(** the peers a session can still hand a request to, or is waiting for *)
Definition known (s : sess) : list N := s_idle s ++ map fst (s_flight s).

Lemma remove_peer_sub q l l' : remove_peer q l = Some l' -> In q l /\ forall x, In x l' -> In x l.
Proof.
  revert l'. induction l as [|a l IH]; intros l'; cbn [remove_peer]; [discriminate|].
  destruct (N.eqb_spec q a) as [->|Hn].
  - intros [= <-]. split; [left; reflexivity | intros x Hx; right; exact Hx].
  - destruct (remove_peer q l) as [t|]; [|discriminate]. intros [= <-].
    destruct (IH t eq_refl) as [Hin Hsub]. split; [right; exact Hin|].
    intros x [<-|Hx]; [left; reflexivity | right; apply Hsub, Hx].
Qed.

Lemma step_known drift tv maxcap from s ev x :
  In x (known (step drift tv maxcap from s ev)) -> In x (known s).
Proof.
  unfold step. destruct (s_res s); [auto|].
  destruct ev as [p r|p now fs| |]; try (unfold known, set_res; cbn [s_idle s_flight]; auto; fail).
  - destruct (remove_peer p (s_idle s)) as [idle'|] eqn:Hrp; [|auto].
    destruct (remove_req r (s_queue s)); [|auto].
    destruct (remove_peer_sub _ _ _ Hrp) as [Hin Hsub].
    unfold known. cbn [s_idle s_flight map fst]. rewrite !in_app_iff. cbn [In].
    intros [H|[<-|H]]; auto.
  - destruct (take_flight p (s_flight s)) as [[r fl]|] eqn:Htf; [|auto].
    destruct (take_flight_spec _ _ _ _ Htf) as (Hin & _ & _ & Hsub).
    assert (Hp : In p (map fst (s_flight s))) by (apply (in_map fst) in Hin; exact Hin).
    assert (Hfl : forall y, In y (map fst fl) -> In y (map fst (s_flight s))).
    { intros y Hy. apply in_map_iff in Hy as (z & <- & Hz). apply in_map, Hsub, Hz. }
    destruct (do_request now drift tv from r fs) as [e|h|].
    + unfold known. cbn [s_idle s_flight]. rewrite !in_app_iff.
      destruct e; rewrite ?in_app_iff; cbn [In]; intuition (subst; auto).
    + destruct (if 0 <? remaining r h then _ else _) as [bad|rq].
      * unfold known, set_res. cbn [s_idle s_flight]. auto.
      * unfold known. cbn [s_idle s_flight]. rewrite !in_app_iff. cbn [In]. intuition (subst; auto).
    + unfold known, set_res. cbn [s_idle s_flight]. auto.
Qed.

Lemma run_known drift tv maxcap from evs : forall s x,
  In x (known (run drift tv maxcap from s evs)) -> In x (known s).
Proof.
  induction evs as [|ev evs IH]; intros s x; cbn [run]; [auto|].
  intros H. apply IH in H. exact (step_known _ _ _ _ _ _ _ H).
Qed.

(** whatever happens during a call, only peers of the set the session was created with
    (peerTracker.peers() at that moment) are idle or in flight - and a request is handed to idle peers only *)
Lemma session_uses_its_peers drift tvp maxcap per from to peers evs x :
  In x (known (run_p drift tvp maxcap from (get_range maxcap per from to peers) evs)) -> In x peers.
Proof.
  rewrite run_p_eq. intros H. apply run_known in H.
  unfold get_range in H.
  destruct (_ || _) in H; [unfold known, done in H; cbn in H; rewrite app_nil_r in H; exact H|].
  destruct (prepare_requests _ _ _ _) in H; try (unfold known, done in H; cbn in H; rewrite app_nil_r in H; exact H).
  destruct (_ <? _) in H; unfold known, done in H; cbn in H; rewrite app_nil_r in H; exact H.
Qed.

(** the next call's session starts without the peers the earlier call blocked *)
Lemma unblocked_spec b peers x :
  In x (unblocked b peers) <-> In x peers /\ ~ In x (blocked_by b).
Proof.
  unfold unblocked. rewrite filter_In. split; intros [H1 H2]; (split; [exact H1|]).
  - intros Hb. apply negb_true_iff in H2. 
    assert (E : existsb (N.eqb x) (blocked_by b) = true) by (apply existsb_exists; exists x; split; [exact Hb | apply N.eqb_refl]).
    congruence.
  - apply negb_true_iff. destruct (existsb (N.eqb x) (blocked_by b)) eqn:E; [|reflexivity].
    apply existsb_exists in E as (y & Hy & Heq). apply N.eqb_eq in Heq. subst y. contradiction.
Qed.

Lemma blocked_peer_is_not_used_again b drift tvp maxcap per from to peers evs x :
  In x (blocked_by b) ->
  ~ In x (known (run_p drift tvp maxcap from (get_range maxcap per from to (unblocked b peers)) evs)).
Proof.
  intros Hb H. apply session_uses_its_peers in H. apply unblocked_spec in H. tauto.
Qed.
