(** Correspondence interface for C17 (concurrent Store use). *)
From Coq Require Import NArith List Bool.
From stdpp Require Import gmap.
From GH Require Import Base.Prelude Model.Store Model.StoreSpec Model.StoreConc Oracle.StoreCase.
Import ListNotations.
Open Scope N_scope.

Record case17 := Case17 {
  q_mode : N;                       (* 0 gated flush, 1 free-running writers+readers, 2 plus a tail-side deleter, 3 gated tail-side delete with one append *)
  q_batch : N;
  q_chain : list hdr;
  q_init : list N;                  (* appended and synced before the concurrent phase *)
  q_queue : list (list N);          (* batches; in channel order for mode 0 *)
  q_gated : list (nat * nat * robs17);   (* (batch index, micro-state index, observation) in schedule order *)
  q_free : list (list robs17);      (* per reader goroutine: its observations in program order *)
  q_synced : list bool;             (* after a writer's Sync returned: each header it had appended is readable *)
  q_del : option (N * oobs);        (* mode 2: the deleter's DeleteRange(Tail, to) and its outcome *)
  q_final : probe }.

Definition robs17_eqb (a b : robs17) : bool :=
  option_eqb pairN_eqb (o_head a) (o_head b) && (o_height a =? o_height b)
  && Bool.eqb (o_head_by_height a) (o_head_by_height b) && Bool.eqb (o_head_by_hash a) (o_head_by_hash b).

(** the model's micro-state [m] of batch [j] *)
Fixpoint micro_at (s : st) (q : list (list hdr)) (j m : nat) : option st :=
  match q with
  | [] => None
  | hs :: r =>
    let ms := flush_micro s (Some hs) in
    match j with
    | O => nth_error ms m
    | S j' => micro_at (last ms s) r j' m
    end
  end.

Definition init_state (c : N -> hdr) (b : N) (init : list N) : st :=
  match init with [] => st0 b | _ => fst (append (st0 b) (map c init)) end.

Definition agree17 (x : case17) : bool :=
  let c := chain_of (q_chain x) in
  let s0 := init_state c (q_batch x) (q_init x) in
  let q := map (map c) (q_queue x) in
  if 2 <=? q_mode x then
    (* free writers + deleter: the sequential model "the appends, Sync, then DeleteRange(Tail, to)"
       reproduces the outcome and the final probe *)
    match q_del x with
    | Some (to, out) =>
      let s1 := sync (seq_run s0 q) in
      let T := match tailp s1 with Some h => h_height h | None => 0 end in
      let '(s2, _, r) := step s1 (ODelete T to 0 []) in
      oobs_eqb (oob r) out && model_probe_ok c s2 (q_final x)
    | None => false
    end
  else
  forallb (fun g => match micro_at s0 q (fst (fst g)) (snd (fst g)) with
                    | Some s => robs17_eqb (observe17 s) (snd g)
                    | None => false end) (q_gated x)
  && model_probe_ok c (seq_run s0 q) (q_final x).

(** the property on the observations *)
Definition head_h (o : robs17) : N := match o_head o with Some (h, _) => h | None => 0 end.
Fixpoint monotone17 (prev : option robs17) (l : list robs17) : bool :=
  match l with
  | [] => true
  | o :: r =>
    o_head_by_height o && o_head_by_hash o
    && match prev with Some p => (head_h p <=? head_h o) && (o_height p <=? o_height o) | None => true end
    && monotone17 (Some o) r
  end.

Definition gap_free (p : probe) : bool :=
  match p_head p, p_tail p with
  | Some (H, _), Some (T, _) =>
    (T <=? H) && forallb (fun r => negb ((T <=? r_n r) && (r_n r <=? H))
                                   || match r_gbh r with RFound h _ => h =? r_n r | _ => false end) (p_rows p)
  | None, None => true
  | _, _ => false
  end.

Definition ok17 (x : case17) : bool :=
  let c := chain_of (q_chain x) in
  chain_ok (q_chain x)
  && monotone17 None (map snd (q_gated x))
  && forallb (monotone17 None) (q_free x)
  && gap_free (q_final x)
  && forallb (fun b => b) (q_synced x)
  && (let sp := fold_left spec_append (q_queue x) (spec_append spec0 (q_init x)) in
      if 2 <=? q_mode x then
        (* the deleter's result is nil and the final reads are those of the specification state
           "delete after the appends" (= "delete, then the appends": C17_delete_race_order_irrelevant):
           no append lost, nothing below [to] left, Tail = to *)
        match q_del x, sHT sp with
        | Some (to, out), Some (T, _) =>
          oobs_eqb out OOk && spec_probe_ok c (fst (spec_delete sp T to None)) (q_final x)
        | _, _ => false
        end
      else spec_probe_ok c sp (q_final x)).

Definition chk17 (x : case17) : bool * bool * N := (agree17 x, ok17 x, 0).

(** the gate-driven tail-side DeleteRange / Append races (Oracle/C17Del.v) are cases of their
    own type: a case of C17 is [X17 (Case17 ...)] (the modes above) or [D17 (DCase17 ...)] *)
From GH Require Import Model.StoreDelConc Oracle.C17Del.
Inductive xcase17 := X17 (x : case17) | D17 (d : dcase17).
Definition chk17x (x : xcase17) : bool * bool * N :=
  match x with X17 y => chk17 y | D17 d => chk17d d end.
