(** Correspondence interface for C07 (and the driver-level simulation shared
    with C03): the driver performs actions on a real sync.Syncer (deliver a
    gossip header through the captured verifier, call Head(), answer the
    outstanding range request, release a gated Store.Append), lets the bubble
    run to quiescence after each and records what it then observes.  [sim]
    replays the same actions on Model/Syncer.v ([astep], the machine as of
    /repo 40dc6a8: an Append is one step): each action is a few machine steps,
    followed by running every goroutine until it blocks.  (Since 40dc6a8 an
    Append parked on the drivers' Store gate would hold syncStore's lock and
    block every other Append: the drivers no longer gate, [DRelL] and the
    gate-[DRelT] are impossible actions.) *)
From Coq Require Import List.
From RecordUpdate Require Import RecordSet.
From GH Require Import Base.Prelude Model.Verify Model.Ranges Model.Syncer Proofs.RangesP Proofs.SyncerP.
Import RecordSetNotations.

(** Gallina twin of vhdr.LinkPolicy(trustRange) (the type-level Verify the drivers install) *)
Definition link_tv (trust : N) (t u : hdr) : tvres :=
  if h_height u =? wrap64 (h_height t + 1) then
    if h_prev u =? h_id t then TVOk else TVPlain 1
  else if negb (trust =? 0) && (trust <? sub64 (h_height u) (h_height t)) then TVPlain 2
  else TVOk.

(** the drivers' universe: a hash-linked chain whose hashes are numbered in height order *)
Fixpoint gen_chain_nat (chain from : N) (n : nat) (t0 sp : Z) (id prev : N) : list hdr :=
  match n with
  | O => []
  | S k => Hdr false chain from t0 id prev true :: gen_chain_nat chain (from + 1) k (t0 + sp)%Z sp (id + 1) id
  end.
Definition gen_chain (chain from n : N) (t0 sp : Z) (id prev : N) : list hdr :=
  gen_chain_nat chain from (N.to_nat n) t0 sp id prev.

(** getter answers as the driver scripts them *)
Inductive gans :=
| APrefix (k : N)            (* the first k headers of the requested range, from the true chain *)
| AErr
| ARaw (l : list hdr).       (* anything else (contract-breaking answers) *)

Inductive dact :=
| DDeliver (h : hdr) (now : Z) (b : bifres)
| DDeliverP (h : hdr) (now : Z) (b : bifres)   (* the same, but the call is parked inside setLocalHead right before
                                                 pending.Add (by a header whose Height() blocks there) until DRelT *)
| DHead (a : option hdr)
| DHeadP (a : option hdr)    (* Head() whose network head request (getter.Head with the subjective head it captured) is
                                slow: parked inside the getter until DRelT, then answered with a *)
| DAnswer (a : gans)
| DRelL                      (* release the sync loop's parked Store.Append: the write goes on *)
| DRelT (i : nat)            (* release learner call i: its parked Store.Append, or the parked call itself (DDeliverP / DHeadP) *)
| DFailL                     (* the sync loop's parked Store.Append fails *)
| DFailT (i : nat).          (* learner call i's parked Store.Append fails *)

Record obs := Obs {
  o_ret : N;                 (* DDeliver: 1 = verifier returned nil, 2 = error, 3 = still running (gated); other actions: 0 *)
  o_head : N;                (* height of the real Store's Head() *)
  o_local : N;               (* height Syncer.Head() reports (localHead) *)
  o_lid : N;                 (* its hash identity *)
  o_id : N; o_from : N; o_to : N; o_err : bool; o_height : N;   (* State() *)
  o_req : option (N * N);    (* outstanding GetRangeByHeight call (from height, to) *)
  o_hid : N;                 (* hash identity of the header the real Store serves at its head height *)
  o_top : N                  (* highest height among head+1..head+4 at which the real Store serves a header; head if none:
                                anything above the head is a gap in the store *)
}.

Definition optNN_eqb (a b : option (N * N)) : bool :=
  option_eqb (fun x y => (fst x =? fst y) && (snd x =? snd y)) a b.

Definition obs_eqb (a b : obs) : bool :=
  (o_ret a =? o_ret b) && (o_head a =? o_head b) && (o_local a =? o_local b) && (o_lid a =? o_lid b) && (o_id a =? o_id b)
  && (o_from a =? o_from b) && (o_to a =? o_to b) && Bool.eqb (o_err a) (o_err b)
  && (o_height a =? o_height b) && optNN_eqb (o_req a) (o_req b) && (o_top a =? o_top b).

Definition isSome {A} (o : option A) : bool := match o with Some _ => true | None => false end.

Definition cur_req (c : cfg) : option (N * N) :=
  match c_loop c with
  | LReq _ from to =>
    if h_height from <? to then Some (h_height from, req_to (h_height from) to) else None
  | _ => None
  end.

Definition store_head_id (c : cfg) : N :=
  match rs_get (rs_head (c_store c)) (c_store c) with Some h => h_id h | None => 0 end.

Definition store_top (c : cfg) : N :=
  let s := c_store c in
  fold_left (fun top k => if rs_has (rs_head s + k) (rs_log s) then rs_head s + k else top) [1; 2; 3; 4] (rs_head s).

Definition observe (ret : N) (c : cfg) : obs :=
  let st := c_state c in
  Obs ret (rs_head (c_store c)) (h_height (local_head c)) (h_id (local_head c)) (ss_id st) (ss_from st) (ss_to st)
      (isSome (ss_err st)) (state_height c) (cur_req c) (store_head_id c) (store_top c).

(** [obs_eqb] leaves [o_hid] aside: which of two different headers appended at one height the Store serves is
    the Store's business (C04); C07's honest world has no such pairs and compares it exactly ([hid_eqb]) *)
Definition hid_eqb (a b : obs) : bool := o_hid a =? o_hid b.

Definition big_fuel : nat := N.to_nat 6000.

Section sim.
Variables (drift : Z) (trust : N) (gate : bool).
Variable universe : list hdr.      (* the true chain, for APrefix *)

Definition chain_at (n : N) : option hdr := find (fun h => h_height h =? n) universe.

Fixpoint chain_run (from : N) (k : nat) : list hdr :=
  match k with
  | O => []
  | S k' => match chain_at from with Some h => h :: chain_run (from + 1) k' | None => [] end
  end.

Definition expand (a : gans) (c : cfg) : ganswer :=
  match a with
  | AErr => GErr
  | ARaw l => GList l
  | APrefix k =>
    match c_loop c with
    | LReq _ from _ => GList (chain_run (h_height from + 1) (N.to_nat k))
    | _ => GErr
    end
  end.

Definition tvf := link_tv trust.

(** let every goroutine run until it blocks: learners in spawn order, then
    the loop, repeated (a learner's wantSync wakes the loop; the loop never
    unblocks a learner except through incomingMu, which learners release
    themselves).  [hold] = the learner calls the driver parks before pending.Add *)
Definition at_sl4 (c : cfg) (i : nat) : bool :=
  match nth_error (c_thr c) i with Some (TRun _ _ _ SL4 _) => true | _ => false end.

Definition at_hd1 (c : cfg) (i : nat) : bool :=
  match nth_error (c_thr c) i with Some (THd1 _ _) => true | _ => false end.

Definition held (hold : list nat) (c : cfg) (i : nat) : bool := existsb (Nat.eqb i) hold && (at_sl4 c i || at_hd1 c i).

(** with the gate (C03's slow-store corpus cases) every underlying Store.Append parks right before the write:
    syncStore.Append has checked the list and holds its lock, nothing has changed yet (/repo f604e5b: the head
    moves after the write).  [pk] = who holds a parked write ([Some None] the sync loop, [Some (Some i)] learner
    call i); while there is one nobody else can start an Append.  The driver releases it ([DRelL] / [DRelT]: the
    Append happens, [astep]) or fails it ([DFailL] / [DFailT]: [l_fail] / [t_fail]). *)
Definition parkst := option (option nat).

Definition writes (c : cfg) (hs : list hdr) : bool :=
  match shim_check (c_cache c) hs with ShimOk _ | ShimSkip => true | _ => false end.
Definition sl0_hdr (c : cfg) (i : nat) : option hdr :=
  match nth_error (c_thr c) i with Some (TRun _ _ x SL0 _) => Some x | _ => None end.

Fixpoint t_run_h (hold : list nat) (fuel : nat) (i : nat) (cp : cfg * parkst) : cfg * parkst :=
  let '(c, pk) := cp in
  match fuel with
  | O => cp
  | S f =>
    if t_blocked false i c || held hold c i then cp
    else
      match (if gate then sl0_hdr c i else None) with
      | Some x =>
        match pk with
        | Some _ => cp                                              (* the lock is taken *)
        | None => if writes c [x] then (c, Some (Some i))           (* parked in the store *)
                  else t_run_h hold f i (t_astep drift tvf i c, pk)  (* refused by the shim: no write *)
        end
      | None => t_run_h hold f i (t_astep drift tvf i c, pk)
      end
  end.

Fixpoint l_run_g (fuel : nat) (cp : cfg * parkst) : cfg * parkst :=
  let '(c, pk) := cp in
  match fuel with
  | O => cp
  | S f =>
    if l_blocked false c then cp
    else
      match (if gate then (match c_loop c with LApp0 _ hs => Some hs | _ => None end) else None) with
      | Some hs =>
        match pk with
        | Some _ => cp
        | None => if writes c hs then (c, Some None) else l_run_g f (l_astep GErr c, pk)
        end
      | None => l_run_g f (l_astep GErr c, pk)
      end
  end.

Fixpoint settle_thr (hold : list nat) (n : nat) (cp : cfg * parkst) : cfg * parkst :=
  match n with
  | O => cp
  | S k => let cp' := settle_thr hold k cp in t_run_h hold big_fuel k cp'
  end.

Definition settle (hold : list nat) (cp : cfg * parkst) : cfg * parkst :=
  let c1 := settle_thr hold (length (c_thr (fst cp))) cp in
  let c2 := l_run_g big_fuel c1 in
  (* a learner that was waiting for incomingMu may proceed once another released it *)
  let c3 := settle_thr hold (length (c_thr (fst c2))) c2 in
  l_run_g big_fuel c3.

Definition ret_of (c : cfg) (i : nat) : N :=
  match nth_error (c_thr c) i with
  | Some (TDone true) => 1
  | Some (TDone false) => 2
  | Some _ => 3
  | None => 0
  end.

(** one driver action; [None] = the action is impossible in the model's state *)
Definition act (hold : list nat) (cp : cfg * parkst) (a : dact) : option (cfg * parkst * N * list nat) :=
  let '(c, pk) := cp in
  match a with
  | DDeliver h now b =>
    let i := length (c_thr c) in
    let cp' := settle hold (step drift tvf c (EGossip h now b), pk) in
    Some (cp', ret_of (fst cp') i, hold)
  | DDeliverP h now b =>
    let i := length (c_thr c) in
    let hold' := i :: hold in
    let cp' := settle hold' (step drift tvf c (EGossip h now b), pk) in
    Some (cp', ret_of (fst cp') i, hold')
  | DHead ans =>
    let cp' := settle hold (step drift tvf c (EHead ans), pk) in
    Some (cp', 0, hold)
  | DHeadP ans =>
    let i := length (c_thr c) in
    let hold' := i :: hold in
    let cp' := settle hold' (step drift tvf c (EHead ans), pk) in
    Some (cp', 0, hold')
  | DAnswer ans =>
    match cur_req c with
    | Some _ => Some (settle hold (l_astep (expand ans c) c, pk), 0, hold)
    | None => None
    end
  | DRelL =>
    match pk with
    | Some None => Some (settle hold (l_astep GErr c, None), 0, hold)
    | _ => None
    end
  | DFailL =>
    match pk with
    | Some None => Some (settle hold (l_fail c, None), 0, hold)
    | _ => None
    end
  | DRelT i =>
    if held hold c i then
      let hold' := filter (fun j => negb (Nat.eqb i j)) hold in
      Some (settle hold' (c, pk), 0, hold')
    else
      match pk with
      | Some (Some j) => if Nat.eqb i j then Some (settle hold (t_astep drift tvf i c, None), 0, hold) else None
      | _ => None
      end
  | DFailT i =>
    match pk with
    | Some (Some j) => if Nat.eqb i j then Some (settle hold (t_fail i c, None), 0, hold) else None
    | _ => None
    end
  end.

Fixpoint sim_h (hold : list nat) (cp : cfg * parkst) (acts : list dact) : list obs * cfg :=
  match acts with
  | [] => ([], fst cp)
  | a :: r =>
    match act hold cp a with
    | None => ([], fst cp)
    | Some (cp', ret, hold') => let '(os, cf) := sim_h hold' cp' r in (observe ret (fst cp') :: os, cf)
    end
  end.

Definition sim (c : cfg) (acts : list dact) : list obs * cfg := sim_h [] (c, None) acts.

(** the configuration at the quiescence after each action (for SyncWait probes inside a script) *)
Fixpoint sim_cfgs_h (hold : list nat) (cp : cfg * parkst) (acts : list dact) : list cfg :=
  match acts with
  | [] => []
  | a :: r =>
    match act hold cp a with
    | None => []
    | Some (cp', _, hold') => fst cp' :: sim_cfgs_h hold' cp' r
    end
  end.
Definition sim_cfgs (c : cfg) (acts : list dact) : list cfg := sim_cfgs_h [] (c, None) acts.

End sim.

(** ** the C07 case *)
Record case07 := Case07 {
  k_drift : Z;
  k_tail : N;
  k_init : list hdr;               (* the store's initial run tail..head *)
  k_chain : list hdr;              (* the true chain above it *)
  k_acts : list (dact * obs);      (* actions, each with the implementation's observation at the following quiescence *)
  k_wait : bool;                   (* final: SyncWait returned nil *)
  k_probe : list (N * N)           (* final: (height, id) of every universe height the Store serves by height *)
}.

Definition model_probe (universe : list hdr) (c : cfg) : list (N * N) :=
  flat_map (fun u => match rs_get (h_height u) (c_store c) with
                     | Some h => [(h_height h, h_id h)]
                     | None => [] end) universe.

Definition pairNN_eqb (x y : N * N) : bool := (fst x =? fst y) && (snd x =? snd y).

(** the action that spawned learner call number [i] *)
Fixpoint nth_spawn (l : list dact) (i : nat) : option dact :=
  match l with
  | [] => None
  | a :: r =>
    match a with
    | DDeliver _ _ _ | DDeliverP _ _ _ | DHead _ | DHeadP _ =>
      match i with O => Some a | S j => nth_spawn r j end
    | _ => nth_spawn r i
    end
  end.

(** the script was run over the slow store (every Store.Append parked, then released or failed by the driver):
    a write of the loop or of a plain gossip call is released / failed *)
Definition uses_gate (l : list dact) : bool :=
  existsb (fun a => match a with
                    | DRelL | DFailL | DFailT _ => true
                    | DRelT j => match nth_spawn l j with Some (DDeliver _ _ _) => true | _ => false end
                    | _ => false end) l.

Definition model07 (k : case07) : list obs * bool * list (N * N) :=
  let u := k_init k ++ k_chain k in
  let '(os, cf) := sim (k_drift k) 0 (uses_gate (map fst (k_acts k))) u (init_cfg (k_tail k) (k_init k)) (map fst (k_acts k)) in
  (os, sync_wait_returns cf, model_probe u cf).

Definition agree07 (k : case07) : bool :=
  let '(os, w, p) := model07 k in
  list_eqb obs_eqb os (map snd (k_acts k)) && list_eqb hid_eqb os (map snd (k_acts k)) && Bool.eqb w (k_wait k) && list_eqb pairNN_eqb p (k_probe k).

(** ** the property, as a decidable check of the implementation's observations *)

Definition hdr_in (h : hdr) (l : list hdr) : bool := existsb (hdr_eqb h) l.

(** the action that spawned learner call number [i] *)
Fixpoint nth_call (l : list (dact * obs)) (i : nat) : option dact :=
  match l with
  | [] => None
  | (a, _) :: r =>
    match a with
    | DDeliver _ _ _ | DDeliverP _ _ _ | DHead _ | DHeadP _ =>
      match i with O => Some a | S j => nth_call r j end
    | _ => nth_call r i
    end
  end.

(** the premises of C07: every delivered / Head()-supplied header is a header
    of the true chain, every answer is an error or a non-empty prefix no longer
    than requested *)
Fixpoint honest07 (u : list hdr) (prev_req : option (N * N)) (l : list (dact * obs)) : bool :=
  match l with
  | [] => true
  | (a, o) :: r =>
    (match a with
     | DDeliver h _ _ => hdr_in h u
     | DHead (Some h) | DHeadP (Some h) => hdr_in h u
     | DHead None | DHeadP None => true
     | DRelT _ => true          (* a delayed Head() call goes on with its answer / a parked store write goes on *)
     | DRelL | DFailL | DFailT _ => true   (* the slow store: a parked write goes on or fails *)
     | DAnswer AErr => true
     | DAnswer (APrefix k) =>
       match prev_req with
       | Some (f, t) => (1 <=? k) && (k <=? t - f - 1)
       | None => false
       end
     | _ => false
     end) && honest07 u (o_req o) r
  end.

(** (the answer of a delayed Head() call counts from the moment the call goes on with it; one that is not
    above the subjective head the call had captured is not above the newest verified head either) *)
Definition accepted_height (all : list (dact * obs)) (a : dact) (o : obs) : N :=
  match a with
  | DDeliver h _ _ => if o_ret o =? 1 then h_height h else 0
  | DHead (Some h) => h_height h
  | DRelT i | DFailT i =>
    (* a delayed Head() call's answer; a gossip header whose store write was parked: verified before, it becomes
       the subjective head when setLocalHead goes on (stored, or - after a failed write - pending) *)
    match nth_call all i with
    | Some (DHeadP (Some h)) => h_height h
    | Some (DDeliver h _ _) => h_height h
    | _ => 0
    end
  | _ => 0
  end.

(** learner calls are atomic in this script (none is delayed in the middle) *)
Definition atomic07 (l : list (dact * obs)) : bool :=
  forallb (fun p => match fst p with DDeliver _ _ _ | DHead _ | DAnswer _ => true | _ => false end) l.

(** what aborts a sync attempt: a getter error, or the failing write of the loop's Append *)
Definition is_err_answer (a : dact) : bool :=
  match a with DAnswer AErr | DFailL => true | _ => false end.

(** walk over the observations: [newest] = newest verified head so far,
    [prev] = previous observation *)
Fixpoint walk07 (all : list (dact * obs)) (u : list hdr) (newest : N) (prev : obs) (l : list (dact * obs)) : bool :=
  match l with
  | [] => true
  | (a, o) :: r =>
    let newest' := N.max newest (accepted_height all a o) in
    (* the Store's head is the true chain's header of that height, and the Store holds nothing above it (no gap) *)
    existsb (fun h => (h_height h =? o_head o) && (h_id h =? o_hid o)) u && (o_top o =? o_head o) &&
    (* the subjective head is the newest verified head, whatever the sync loop is doing *)
    (o_local o =? newest')
    (* Syncer.Head() is never below the head handed to the Store *)
    && (o_height o <=? o_local o)
    (* nothing stored is ever lost; syncs are numbered upwards *)
    && (o_head prev <=? o_head o) && (o_id prev <=? o_id o)
    (* the store never runs ahead of what was verified *)
    && (o_head o <=? newest')
    (* an outstanding request resumes from the store head (with delayed Head() calls the store may have moved on
       since it was issued), asks for at most 64, never beyond the target *)
    && (match o_req o with
        | Some (f, t) => (if atomic07 all then f =? o_head o else f <=? o_head o) && (f + 1 <? t) && (t <=? f + 65) && (t - 1 <=? newest')
        | None => true
        end)
    (* a getter error aborts the attempt: State reports it, store and subjective head are intact *)
    && (if is_err_answer a then o_err o && (o_head o =? o_head prev) && (o_local o =? o_local prev) else true)
    && walk07 all u newest' o r
  end.

Fixpoint newest07 (all : list (dact * obs)) (newest : N) (l : list (dact * obs)) : N :=
  match l with
  | [] => newest
  | (a, o) :: r => newest07 all (N.max newest (accepted_height all a o)) r
  end.

(** index (from 1) of the first observation carrying sync id [id] / of the last learn *)
Fixpoint first_with_id (id : N) (i : N) (l : list (dact * obs)) : N :=
  match l with
  | [] => 0
  | (_, o) :: r => if o_id o =? id then i else first_with_id id (i + 1) r
  end.

Fixpoint last_learn (all : list (dact * obs)) (newest : N) (i last : N) (l : list (dact * obs)) : N :=
  match l with
  | [] => last
  | (a, o) :: r =>
    if newest <? accepted_height all a o then last_learn all (accepted_height all a o) (i + 1) i r
    else last_learn all newest (i + 1) last r
  end.

Fixpoint err_in_attempt (id : N) (l : list (dact * obs)) : bool :=
  match l with
  | [] => false
  | (a, o) :: r => (is_err_answer a && (o_id o =? id)) || err_in_attempt id r
  end.

Definition final07 (k : case07) (h0 : N) : bool :=
  match last_opt (map snd (k_acts k)) with
  | None => true
  | Some o =>
    let newest := newest07 (k_acts k) h0 (k_acts k) in
    match o_req o with
    | Some _ => true                                     (* the driver stopped with a request outstanding: nothing to claim *)
    | None =>
      if o_err o then
        (* only allowed when the final attempt was answered with an error and no head was learned after it began *)
        err_in_attempt (o_id o) (k_acts k)
        && (last_learn (k_acts k) h0 1 0 (k_acts k) <=? first_with_id (o_id o) 1 (k_acts k))
      else
        (* reached: store head = newest verified head, State finished without error, SyncWait returns *)
        (o_head o =? newest) && (o_height o =? newest) && (o_to o <=? o_height o) && k_wait k
    end
  end.

Definition consecutive_probe (tail head : N) (p : list (N * N)) : bool :=
  list_eqb N.eqb (map fst p) (map (fun i => tail + N.of_nat i) (seq 0 (N.to_nat (head + 1 - tail)))).

Definition ok07 (k : case07) : bool :=
  let u := k_init k ++ k_chain k in
  let h0 := h_height (last (k_init k) hdr_nil) in
  if honest07 u None (k_acts k) then
    let o0 := Obs 0 h0 h0 0 0 0 0 false h0 None 0 h0 in
    walk07 (k_acts k) u h0 o0 (k_acts k) && final07 k h0
    (* what the Store serves at the end is exactly tail..head, true chain headers *)
    && (match last_opt (map snd (k_acts k)) with
        | Some o => consecutive_probe (k_tail k) (o_head o) (k_probe k)
        | None => true
        end)
    && forallb (fun p => existsb (fun h => (h_height h =? fst p) && (h_id h =? snd p)) u) (k_probe k)
  else true.

Definition chk07 (k : case07) : bool * bool * N := (agree07 k, ok07 k, 0).

(** ** tying the oracle's final check to the theorems: what C07_reaches_target
    concludes ([reached]) is exactly what [final07] demands of the observation
    of a quiescent configuration; and a rejected range answer shows up in the
    observation as [walk07] demands (error reported, store and subjective head
    unchanged) *)
Lemma ranges_head_nil P : ranges_all P = [] -> ranges_head P = None.
Proof.
  intros H. unfold ranges_head. destruct (last_opt P) as [r|] eqn:E; [|reflexivity].
  apply last_opt_in in E. unfold range_head.
  assert (Hr : r_hdrs r = []).
  { unfold ranges_all in H. destruct (r_hdrs r) as [|x l] eqn:Er; [reflexivity|exfalso].
    assert (Hx : In x (flat_map r_hdrs P)) by (apply in_flat_map; exists r; split; [exact E|rewrite Er; left; reflexivity]).
    rewrite H in Hx. destruct Hx. }
  rewrite Hr. reflexivity.
Qed.

Lemma reached_observed ch H c' :
  quiescent c' -> reached ch H c' ->
  let o := observe 0 c' in
  o_head o = H /\ o_height o = H /\ o_local o = H /\ o_err o = false /\ (o_to o <=? o_height o) = true /\
  o_req o = None /\ sync_wait_returns c' = true.
Proof.
  intros [E1 E2] (EA & Eh & Ec & Ee & Ef & Ew & _). unfold observe, cur_req, local_head. cbn.
  rewrite (ranges_head_nil _ EA), E1, Ee. unfold state_finished, state_height in *.
  repeat split; auto.
Qed.

Lemma error_observed c k from to :
  c_loop c = LReq k from to -> h_height from < to ->
  let c' := l_step GErr c in
  let o := observe 0 c in let o' := observe 0 c' in
  o_err o' = true /\ o_head o' = o_head o /\ o_local o' = o_local o /\ o_height o' = o_height o.
Proof.
  intros El Hlt. destruct (error_aborts c k from to GErr SEGetter El Hlt (or_introl (conj eq_refl eq_refl))) as (A & B & C & _ & _ & F & _).
  unfold observe, local_head, state_height. cbn zeta. cbn [o_err o_head o_local o_height]. rewrite A, B, C, F. repeat split; reflexivity.
Qed.

(** * SyncWait inside the scripts (extra driver [wait], harness/c07/c07_wait_test.go)

    A SyncWait call started at the quiescence after action number i (1-based):
    [before] = it returned nil at once, [after] = it had returned nil when the
    script was over. *)
Record case07w := Case07w { kw_case : case07; kw_waits : list (N * bool * bool) }.

(** the model's answer for a SyncWait started in configuration [c] when the run ends in [final]:
    it returns at once iff [sync_wait_returns c]; otherwise it sits in GetByHeight(State.ToHeight)
    and returns as soon as the store serves that height *)
Definition wait_model (c final : cfg) : bool * bool :=
  let b := sync_wait_returns c in
  (b, b || rs_has (ss_to (c_state c)) (rs_log (c_store final))).

Definition model07w (k : case07w) : list (bool * bool) :=
  let k0 := kw_case k in
  let u := k_init k0 ++ k_chain k0 in
  let acts := map fst (k_acts k0) in
  let g := uses_gate acts in
  let c0 := init_cfg (k_tail k0) (k_init k0) in
  let cfgs := sim_cfgs (k_drift k0) 0 g u c0 acts in
  let final := snd (sim (k_drift k0) 0 g u c0 acts) in
  map (fun w => match nth_error cfgs (N.to_nat (fst (fst w)) - 1) with
                | Some c => wait_model c final
                | None => (false, false)
                end) (kw_waits k).

Definition bb_eqb (x y : bool * bool) : bool := Bool.eqb (fst x) (fst y) && Bool.eqb (snd x) (snd y).

Definition agree07w (k : case07w) : bool :=
  agree07 (kw_case k)
  && list_eqb bb_eqb (model07w k) (map (fun w => (snd (fst w), snd w)) (kw_waits k)).

(** the property on the observation: a SyncWait that has returned stays returned, and once the
    script is over with the final SyncWait returning (nothing in progress any more) no earlier
    SyncWait call is still blocked *)
Definition ok07w (k : case07w) : bool :=
  ok07 (kw_case k)
  && forallb (fun w => implb (snd (fst w)) (snd w) && implb (k_wait (kw_case k)) (snd w)) (kw_waits k).

Definition chk07w (k : case07w) : bool * bool * N := (agree07w k, ok07w k, 0).

(** SyncWait blocks only while a sync is in progress: the target of the recorded sync is above
    the height the store reports *)
Lemma sync_wait_blocks_only_during_sync c :
  sync_wait_returns c = false -> state_height c < ss_to (c_state c) /\ rs_has (ss_to (c_state c)) (rs_log (c_store c)) = false.
Proof.
  unfold sync_wait_returns, state_finished. intros H. apply Bool.orb_false_iff in H. destruct H as [H1 H2].
  split; [|exact H2]. apply N.leb_gt. exact H1.
Qed.

(** the model's waiter: returned at once implies returned at the end, and it has returned at the
    end iff it returned at once or the final store serves the sync target it read *)
Lemma wait_model_mono c final : fst (wait_model c final) = true -> snd (wait_model c final) = true.
Proof. unfold wait_model. cbn. intros ->. reflexivity. Qed.
