(** Correspondence interface for C03.  Same driver actions and simulation as
    Oracle/C07.v, now with arbitrary gossip (forged / forked / wrong chain /
    future / stale / duplicate / out of order), a trust range (soft failures
    and bifurcation), contract-breaking range answers ([ARaw]) and a gate on
    Store.Append (the sync loop or a verifier call parked between the shim's
    cache update and the store write; released by [DRelL] / [DRelT]). *)
From Coq Require Import List.
From RecordUpdate Require Import RecordSet.
From GH Require Import Base.Prelude Model.Verify Model.Ranges Model.Syncer Proofs.RangesP Proofs.SyncerP Proofs.SyncerInvP Oracle.C07.
Import RecordSetNotations.

Record case03 := Case03 {
  q_drift : Z;
  q_trust : N;                     (* vhdr.LinkPolicy trust range, 0 = unlimited *)
  q_gate : bool;                   (* Store.Append calls are gated *)
  q_tail : N;
  q_init : list hdr;
  q_chain : list hdr;
  q_acts : list (dact * obs);
  q_results : list N;              (* final: per learner call 1 = nil / adopted, 2 = error, 3 = never returned *)
  q_probe : list (N * N);          (* final: (height, id) the Store serves by height over the universe *)
  q_dump : list N;                 (* final (after Stop): heights present in the datastore's height index, ascending *)
  q_hashes : N                     (* final: number of header entries in the datastore *)
}.

(** insertion sort without duplicates *)
Fixpoint ins (n : N) (l : list N) : list N :=
  match l with
  | [] => [n]
  | m :: r => if n <? m then n :: l else if n =? m then l else m :: ins n r
  end.
Definition sort_nodup (l : list N) : list N := fold_right ins [] l.

Definition model_probe_all (tail top : N) (c : cfg) : list (N * N) :=
  flat_map (fun i => let n := tail + N.of_nat i in
                     match rs_get n (c_store c) with Some h => [(h_height h, h_id h)] | None => [] end)
           (seq 0 (N.to_nat (top + 1 - tail))).

Definition top_of (k : case03) : N := h_height (last (q_init k ++ q_chain k) hdr_nil) + 2.

Definition model03 (k : case03) :=
  let u := q_init k ++ q_chain k in
  let '(os, cf) := sim (q_drift k) (q_trust k) (q_gate k) u (init_cfg (q_tail k) (q_init k)) (map fst (q_acts k)) in
  (os,
   map (ret_of cf) (seq 0 (length (c_thr cf))),
   (model_probe_all (q_tail k) (N.max (top_of k) (rs_head (c_store cf) + 2)) cf,
    map (fun h => (h_height h, h_id h)) (rs_log (c_store cf))),
   sort_nodup (map h_height (rs_log (c_store cf))),
   N.of_nat (length (sort_nodup (map h_id (rs_log (c_store cf)))))).

(** learner calls in spawn order: true = gossip verifier call (its error is observable), false = Head() call *)
Definition call_kinds (l : list (dact * obs)) : list bool :=
  flat_map (fun p => match fst p with DDeliver _ _ _ | DDeliverP _ _ _ => [true] | DHead _ | DHeadP _ => [false] | _ => [] end) l.

Fixpoint res_agree (kinds : list bool) (m i : list N) : bool :=
  match kinds, m, i with
  | [], [], [] => true
  | kd :: kr, a :: mr, b :: ir => (if kd then a =? b else true) && res_agree kr mr ir
  | _, _, _ => false
  end.

Definition agree03 (k : case03) : bool :=
  let '(os, res, (pr, stored), dump, nh) := model03 k in
  list_eqb obs_eqb os (map snd (q_acts k)) && res_agree (call_kinds (q_acts k)) res (q_results k)
  (* the header at the Store's head: the model's, or (two different headers appended at that height) one the model stored there *)
  && list_eqb (fun m i => (o_hid m =? o_hid i) || existsb (pairNN_eqb (o_head i, o_hid i)) stored) os (map snd (q_acts k))
  (* the Store serves the same heights; where two different headers were appended at one height (forks, over-long
     answers) which of them it serves is the Store's business (C04): it must be one of those the model stored there *)
  && list_eqb N.eqb (map fst pr) (map fst (q_probe k))
  && forallb (fun p => existsb (pairNN_eqb p) stored) (q_probe k)
  && list_eqb N.eqb dump (q_dump k)
  (* header entries: the store's write batch keeps one header per height, so a header replaced at its height
     before the batch is flushed never reaches the disk: at most the model's count, at least one per height *)
  && (q_hashes k <=? nh) && (N.of_nat (length dump) <=? q_hashes k).

(** ** the property on the implementation's observations *)

(** every header that occurs anywhere in the case *)
Definition act_hdrs (a : dact) : list hdr :=
  match a with
  | DDeliver h _ (Bif pr _) | DDeliverP h _ (Bif pr _) => h :: pr
  | DHead (Some h) | DHeadP (Some h) => [h]
  | DAnswer (ARaw l) => l
  | _ => []
  end.
Definition pool (k : case03) : list hdr := q_init k ++ q_chain k ++ flat_map (fun p => act_hdrs (fst p)) (q_acts k).

(** the verdict header.Verify (Model/Verify.v, C01) prescribes for a delivery
    against the subjective head the implementation reported before it *)
Definition expected_ret (k : case03) (prev : obs) (h : hdr) (now : Z) (b : bifres) : option N :=
  match find (fun t => h_id t =? o_lid prev) (pool k) with
  | None => None
  | Some t =>
    match Verify now (q_drift k) (link_tv (q_trust k)) t h with
    | None => Some 1
    | Some e => if ve_soft e then (let '(Bif _ ok) := b in Some (if ok then 1 else 2)) else Some 2
    end
  end.

(** a learner call only ever adds the header right above the store head (or rewrites a height below it): a
    network head answer that arrives when the Store's head already is ANOTHER header of that height must
    not replace it.  Decided on the observation before the answer arrives; only without the Append gate,
    where the shim's cached head is the Store's head at every quiescence. *)
Definition head_answer_ids (gate : bool) (prev : obs) (h : hdr) : list N :=
  if negb gate && (o_head prev =? h_height h) && negb (o_hid prev =? h_id h) then [] else [h_id h].

(** direct verification of a delivery against the subjective head the implementation reported fails SOFTLY: only then
    does bifurcation run, only then can its promotions [pr] enter ([verdict] of Model/Syncer.v, [enters] of
    Proofs/SyncerInvP.v).  A call that had not decided yet at the observation (parked: [o_ret] = 3) verifies against
    a later head: left open. *)
Definition soft_delivery (k : case03) (prev o : obs) (h : hdr) (now : Z) : bool :=
  if o_ret o =? 3 then true
  else
    match find (fun t => h_id t =? o_lid prev) (pool k) with
    | None => false
    | Some t => match Verify now (q_drift k) (link_tv (q_trust k)) t h with Some e => ve_soft e | None => false end
    end.

(** the header at the shim's head when the observation was taken: without the Append gate it is the Store's head *)
Definition cache_of (k : case03) (prev : obs) : option hdr :=
  if negb (q_gate k) && (o_head prev =? o_height prev)
  then find (fun t => (h_height t =? o_head prev) && (h_id t =? o_hid prev)) (pool k) else None.

(** a raw range answer that is REFUSED lets nothing in: no request outstanding, empty, first height not from+1
    (requestHeaders), or not a walk from the shim's head (syncStore.Append: errNonAdjacent, nothing written) *)
Definition raw_refused (k : case03) (prev : obs) (l : list hdr) : bool :=
  match o_req prev, l with
  | Some (f, _), x :: _ =>
    negb (h_height x =? wrap64 (f + 1))
    || match cache_of k prev with
       | Some c => match shim_check c l with ShimNonAdj => true | _ => false end
       | None => false
       end
  | _, _ => true
  end.

(** identities allowed in the store: initial, true chain (the getter's source),
    raw answers that were not refused, Head() answers (see above), heads promoted by a bifurcation that ran, and
    gossip headers whose verifier call did not return an error *)
Fixpoint allowed_ids (k : case03) (all : list (dact * obs)) (res : list N) (i : nat) (prev : obs) (l : list (dact * obs)) : list N :=
  let gate := q_gate k in
  match l with
  | [] => []
  | (a, o) :: r =>
    match a with
    | DDeliver h now (Bif pr _) | DDeliverP h now (Bif pr _) =>
      (if nth i res 0 =? 2 then [] else [h_id h]) ++ (if soft_delivery k prev o h now then map h_id pr else [])
      ++ allowed_ids k all res (S i) o r
    | DHead (Some h) => head_answer_ids gate prev h ++ allowed_ids k all res (S i) o r
    | DHead None | DHeadP _ => allowed_ids k all res (S i) o r
    | DRelT j =>
      (match nth_call all j with Some (DHeadP (Some h)) => head_answer_ids gate prev h | _ => [] end)
      ++ allowed_ids k all res i o r
    | DAnswer (ARaw l) => (if raw_refused k prev l then [] else map h_id l) ++ allowed_ids k all res i o r
    | _ => allowed_ids k all res i o r
    end
  end.

Definition same_state (a b : obs) : bool :=
  (o_head a =? o_head b) && (o_local a =? o_local b) && (o_lid a =? o_lid b) && (o_id a =? o_id b)
  && (o_from a =? o_from b) && (o_to a =? o_to b) && Bool.eqb (o_err a) (o_err b) && (o_height a =? o_height b)
  && optNN_eqb (o_req a) (o_req b).

Fixpoint walk03 (k : case03) (prev : obs) (l : list (dact * obs)) : bool :=
  match l with
  | [] => true
  | (a, o) :: r =>
    (* Head() of the store and the sync numbering never go back *)
    (o_head prev <=? o_head o) && (o_id prev <=? o_id o)
    (* gap-freedom at every observation: the Store serves nothing above its head (a write parked in the underlying
       store keeps syncStore's lock: no later Append can reach the store before it) *)
    && (o_top o =? o_head o)
    (* Syncer.Head() is never below the head the shim handed to the Store (State().Height), in any state
       (C07_head_never_below_store_head; [head_observed] below) *)
    && (o_height o <=? o_local o)
    (* a learner call (gossip verifier, Head()) only ever adds the header right above the store head: it never
       replaces the header the Store holds at its head (the sync loop writes only when a range answer arrives
       or its gated Append is released) *)
    && (match a with
        | DAnswer _ | DRelL => true
        | _ => if o_head prev =? o_head o then o_hid prev =? o_hid o else true
        end)
    (* a getter error - of whatever kind - only aborts the attempt: State reports it, Store and subjective head are
       as before (C07_error_aborts_only_attempt: the target is not dropped, what follows is verified against it) *)
    && (match a with
        | DAnswer AErr => o_err o && (o_head o =? o_head prev) && (o_local o =? o_local prev) && (o_lid o =? o_lid prev)
        | _ => true
        end)
    (* a refused raw answer aborts the attempt: State reports the error (unless a further sync has begun meanwhile) *)
    && (match a with
        | DAnswer (ARaw rl) => if raw_refused k prev rl then o_err o || negb (o_id o =? o_id prev) else true
        | _ => true
        end)
    (* a network head answer that comes with an error is adopted by nobody: not by the Head() call that asked, not by
       one that joined its request *)
    && (match a with
        | DHead None | DHeadP None => same_state prev o
        | DRelT j => match nth_call (q_acts k) j with Some (DHeadP None) => same_state prev o | _ => true end
        | _ => true
        end)
    && (match a with
        | DDeliver h now b | DDeliverP h now b =>
          if o_ret o =? 3 then true                    (* parked behind incomingMu / the gate: decided later *)
          else
            (* the verifier answers what header.Verify against the subjective head prescribes *)
            (match expected_ret k prev h now b with Some e => o_ret o =? e | None => false end)
            (* a refused header changes nothing (unless bifurcation promoted something on the way) *)
            && (if (o_ret o =? 2) && (match b with Bif [] _ => true | _ => false end) then same_state prev o else true)
            (* a refused header is never the subjective head / sync target *)
            && (if o_ret o =? 2 then negb (o_lid o =? h_id h) || (o_lid prev =? h_id h) else true)
        | _ => true
        end)
    && walk03 k o r
  end.

Definition ok03 (k : case03) : bool :=
  let h0 := h_height (last (q_init k) hdr_nil) in
  let i0 := h_id (last (q_init k) hdr_nil) in
  let o0 := Obs 0 h0 h0 i0 0 0 0 false h0 None i0 h0 in
  let ids := map h_id (q_init k) ++ map h_id (q_chain k) ++ allowed_ids k (q_acts k) (q_results k) 0 o0 (q_acts k) in
  walk03 k o0 (q_acts k)
  && (match last_opt (map snd (q_acts k)) with
      | Some o =>
        (* at the end (all gates released): the Store serves exactly tail..head, and the datastore holds no other height *)
        consecutive_probe (q_tail k) (o_head o) (q_probe k)
        && list_eqb N.eqb (q_dump k) (map fst (q_probe k))
        (* quiescent (nothing outstanding, every call returned) and the last attempt did not fail: no head is left
           behind in pending, in particular none below the store head - the subjective head is the store head *)
        && (if isSome (o_req o) || o_err o || existsb (N.eqb 3) (q_results k) then true
            else (o_local o =? o_height o) && (o_height o <=? o_head o))
      | None => true
      end)
  (* only allowed headers are stored *)
  && forallb (fun p => existsb (N.eqb (snd p)) ids) (q_probe k).

Definition chk03 (k : case03) : bool * bool * N := (agree03 k, ok03 k, 0).

(** ** tying the oracle's final check to the theorem: in every configuration
    satisfying the invariant of C03_store_contiguous with no Append in flight,
    the store probe the oracle inspects ([rs_get] per height) finds a header
    exactly at the heights tail..head *)
Lemma rs_get_has n s : (exists h, rs_get n s = Some h) <-> rs_has n (rs_log s) = true.
Proof.
  unfold rs_get, rs_has. split.
  - intros (h & Hf). apply find_some in Hf. apply existsb_exists. exists h. exact Hf.
  - intros He. apply existsb_exists in He. destruct He as (x & Hx & E).
    destruct (find (fun h => h_height h =? n) (rs_log s)) as [h|] eqn:Ef; [exists h; reflexivity|].
    exfalso. pose proof (find_none _ _ Ef x Hx) as Hn. cbn in Hn. congruence.
Qed.

Lemma inv_probe tail c :
  Inv tail c -> reserved c = [] ->
  forall n, (exists h, rs_get n (c_store c) = Some h) <-> tail <= n <= rs_head (c_store c).
Proof.
  intros HI Hq n. rewrite rs_get_has.
  destruct (store_contiguous tail c HI) as (_ & _ & _ & _ & Hx & _). apply Hx. exact Hq.
Qed.

(** what [walk03] demands of every observation is what C07_head_never_below_store_head states of every configuration *)
Lemma head_observed ret c : (o_height (observe ret c) <=? o_local (observe ret c)) = true.
Proof. apply N.leb_le. cbn. unfold state_height. apply local_head_ge_cache. Qed.

(** gap-freedom as the oracle sees it ([o_top = o_head] at every observation) is what Props/C03.v
    C03_store_one_run_in_every_state states of every configuration of the machine with failing writes:
    the Store serves exactly tail..head, in particular nothing above the head *)
Lemma top_observed tail ret c :
  (forall n, rs_has n (rs_log (c_store c)) = true <-> tail <= n <= rs_head (c_store c)) ->
  o_top (observe ret c) = o_head (observe ret c).
Proof.
  intros H. cbn [observe o_top o_head]. unfold store_top.
  assert (Hk : forall k, 1 <= k -> rs_has (rs_head (c_store c) + k) (rs_log (c_store c)) = false).
  { intros k Hk. destruct (rs_has _ _) eqn:E; [|reflexivity]. apply H in E. lia. }
  cbn [fold_left]. rewrite !Hk by lia. reflexivity.
Qed.

(** * Oracle-only leg "headsoft" (harness/c03/c03_headsoft_test.go, TestC03HeadSoft)

    The soft-answer branch of [Syncer.networkHead]: the network head request made with
    [WithTrustedHead] is answered with a header TOGETHER WITH a soft [*VerifyError], and the
    Syncer hands that header to [incomingNetworkHead] for bifurcation.  Model/Syncer.v has no
    event for this branch ([THd1] is a plain answer), so there is NO MODEL SIDE here: [chk03h]
    answers [agree = true] for every case and only the oracle speaks.  The oracle re-states the
    property on the observation, independently of the model:
      - every header the Store serves is a header of the TRUE chain at its height (the driver's
        registry numbers the true chain 1.. in height order, so the true id of height n is
        n + 1 - tail; forged headers are numbered after them);
      - the Store is one gap-free run tail..head, and its head is a true header;
      - the subjective head ([Syncer.Head()] at every quiescence and the header the gated
        [Head()] call returned) is a true header, in particular not one of the forged ones.
    In these scenarios forged headers fail every verification (bad link when adjacent, bad
    "signature" = non-zero nonce otherwise), so "true chain only" is what the property demands. *)
Record obs03h := Obs03h {
  oh_sync : N * N;                 (* Syncer.Head() at this quiescence: (height, id); (0, 0) = it returned an error *)
  oh_state : N;                    (* State().Height *)
  oh_shead : N * N;                (* the Store's head: (height, id) *)
  oh_probe : list (N * N)          (* (height, id) at every height tail .. max(universe top, store head) + 2 the Store serves *)
}.

Record case03h := Case03h {
  qh_tail : N;
  qh_total : N;                    (* the true chain: heights tail .. tail+total-1, ids 1 .. total in height order *)
  qh_forged : list N;              (* ids of the forged headers of the case *)
  qh_ret : N;                      (* the gated Head() call: 1 = returned nil error, 2 = returned an error, 3 = never returned *)
  qh_rhdr : N * N;                 (* the header it returned: (height, id); (0, 0) = none *)
  qh_obs : list obs03h             (* observations at the quiescences after the answer was released, in order *)
}.

Definition true_at (k : case03h) (p : N * N) : bool :=
  (qh_tail k <=? fst p) && (fst p <? qh_tail k + qh_total k) && (snd p =? fst p + 1 - qh_tail k).

Definition ok_obs03h (k : case03h) (o : obs03h) : bool :=
  (* only true headers in the Store, each at its own height *)
  forallb (true_at k) (oh_probe o)
  && negb (existsb (fun p => existsb (N.eqb (snd p)) (qh_forged k)) (oh_probe o))
  (* one gap-free run tail..head *)
  && consecutive_probe (qh_tail k) (fst (oh_shead o)) (oh_probe o)
  && true_at k (oh_shead o)
  (* the subjective head is a true header, never a forged one, and not below what was synced *)
  && true_at k (oh_sync o)
  && negb (existsb (N.eqb (snd (oh_sync o))) (qh_forged k))
  && (oh_state o <=? fst (oh_sync o)).

Definition ok03h (k : case03h) : bool :=
  (* the case is well-formed: forged headers are numbered apart from the true chain *)
  forallb (fun i => qh_total k <? i) (qh_forged k)
  && negb (qh_ret k =? 3)
  && (if qh_ret k =? 1
      then true_at k (qh_rhdr k) && negb (existsb (N.eqb (snd (qh_rhdr k))) (qh_forged k))
      else true)
  && negb (match qh_obs k with [] => true | _ => false end)
  && forallb (ok_obs03h k) (qh_obs k).

(** oracle only: no model agreement is claimed for these cases *)
Definition chk03h (k : case03h) : bool * bool * N := (true, ok03h k, 0).
