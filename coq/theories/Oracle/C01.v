(** Correspondence oracle for C01/C02: observation type, decidable property
    checkers evaluated on the implementation's observations, and the lemmas
    tying the checkers to the model. *)
From GH Require Import Base.Prelude Model.Verify Proofs.VerifyP.

(** what the harness can observe of an error returned by Verify / VerifyRange *)
Inductive eobs :=
| ONil
| OSent (s : sentinel) (soft : bool)
| OType (e : N) (soft : bool)
| OEmptyRange (soft : bool)
| ONonAdj (soft : bool)
| OOther.       (* not a *VerifyError, or a panic *)

Definition sent_eqb (a b : sentinel) : bool :=
  match a, b with
  | EZero, EZero | EWrongChain, EWrongChain | EKnown, EKnown
  | EUnordered, EUnordered | EFuture, EFuture => true
  | _, _ => false
  end.

Definition eobs_eqb (a b : eobs) : bool :=
  match a, b with
  | ONil, ONil => true
  | OSent s x, OSent s' x' => sent_eqb s s' && Bool.eqb x x'
  | OType e x, OType e' x' => (e =? e') && Bool.eqb x x'
  | OEmptyRange x, OEmptyRange x' => Bool.eqb x x'
  | ONonAdj x, ONonAdj x' => Bool.eqb x x'
  | _, _ => false
  end.

Definition obs_of (r : option verr) : eobs :=
  match r with
  | None => ONil
  | Some (VErr (RSent s) soft) => OSent s soft
  | Some (VErr (RType e) soft) => OType e soft
  | Some (VErr REmptyRange soft) => OEmptyRange soft
  | Some (VErr RNonAdjacent soft) => ONonAdj soft
  end.

Record case01 := Case01 {
  c_now : Z; c_drift : Z; c_tv : tvres; c_t : hdr; c_u : hdr; c_obs : eobs }.

Definition model01 (c : case01) : eobs :=
  obs_of (Verify (c_now c) (c_drift c) (fun _ _ => c_tv c) (c_t c) (c_u c)).

(** the property, restated as a decidable check on an observation: which of
    the mandatory conditions fails first, independent of the model's code path *)
Definition first_failing (now drift : Z) (t u : hdr) : option sentinel :=
  if h_nil t || h_nil u then Some EZero
  else if negb (h_chain u =? h_chain t) then Some EWrongChain
  else if negb (h_height t <? h_height u) then Some EKnown
  else if negb (h_time t <=? h_time u)%Z then Some EUnordered
  else if negb (h_time u <=? now + drift)%Z then Some EFuture
  else None.

Definition ok01 (c : case01) : bool :=
  let ff := first_failing (c_now c) (c_drift c) (c_t c) (c_u c) in
  match c_obs c with
  | ONil => match ff, c_tv c with None, TVOk => true | _, _ => false end
  | OSent s soft => negb soft && match ff with Some s' => sent_eqb s s' | None => false end
  | OType e soft =>
    match ff, tv_err_id (c_tv c) with
    | None, Some e' => (e =? e') && Bool.eqb soft (negb (adjacent (c_t c) (c_u c)) || tv_soft (c_tv c))
    | _, _ => false
    end
  | _ => false
  end.

Definition chk01 (c : case01) : bool * bool * N :=
  (eobs_eqb (model01 c) (c_obs c), ok01 c, 0).

Lemma first_failing_eq now drift t u : first_failing now drift t u = verify_mand now drift t u.
Proof.
  unfold first_failing, verify_mand.
  destruct (h_nil t), (h_nil u); cbn; try reflexivity.
  destruct (h_chain u =? h_chain t); cbn; [|reflexivity].
  destruct (N.ltb_spec (h_height t) (h_height u)), (N.leb_spec (h_height u) (h_height t)); cbn; try lia; [|reflexivity].
  destruct (Z.leb_spec (h_time t) (h_time u)), (Z.ltb_spec (h_time u) (h_time t)); cbn; try lia; [|reflexivity].
  destruct (Z.leb_spec (h_time u) (now + drift)), (Z.ltb_spec (now + drift) (h_time u)); cbn; try lia; reflexivity.
Qed.

(** the model's own observation always satisfies the oracle *)
Theorem model01_ok : forall now drift tvr t u,
  ok01 (Case01 now drift tvr t u (model01 (Case01 now drift tvr t u ONil))) = true.
Proof.
  intros. unfold ok01, model01, Verify; cbn [c_now c_drift c_tv c_t c_u c_obs].
  rewrite first_failing_eq.
  destruct (verify_mand now drift t u) as [s|]; cbn.
  - destruct s; reflexivity.
  - destruct tvr; cbn; rewrite ?N.eqb_refl; cbn; try reflexivity;
      try destruct soft; destruct (adjacent t u); reflexivity.
Qed.

(** ** C02 *)
Record case02 := Case02 {
  d_now : Z; d_drift : Z; d_t : hdr;
  d_in : list (hdr * tvres);     (* the untrusted range, each with the scripted type-level result *)
  d_res : list N;                (* ids of the returned headers *)
  d_err : eobs }.

Definition tv_of (l : list (hdr * tvres)) (t u : hdr) : tvres :=
  match find (fun p => h_id (fst p) =? h_id u) l with
  | Some p => snd p
  | None => TVOk
  end.

Definition model02 (c : case02) : list N * eobs :=
  let '(v, e) := VerifyRange (d_now c) (d_drift c) (tv_of (d_in c)) (d_t c) (map fst (d_in c)) in
  (map h_id v, obs_of e).

Fixpoint take_hdrs (ids : list N) (l : list hdr) : option (list hdr) :=
  match ids, l with
  | [], _ => Some []
  | i :: ir, h :: lr => if i =? h_id h then option_map (cons h) (take_hdrs ir lr) else None
  | _ :: _, [] => None
  end.

Fixpoint chain_verified_b now drift tv (t : hdr) (l : list hdr) : bool :=
  match l with
  | [] => true
  | u :: r => match Verify now drift tv t u with None => chain_verified_b now drift tv u r | _ => false end
  end.

Fixpoint consecutive_b (l : list hdr) : bool :=
  match l with
  | a :: ((b :: _) as r) => (wrap64 (h_height a + 1) =? h_height b) && consecutive_b r
  | _ => true
  end.

Definition is_nil_obs (e : eobs) : bool := match e with ONil => true | _ => false end.
Definition is_verr_obs (e : eobs) : bool := match e with OOther => false | _ => true end.

(** the property C02 as a decidable check of an observed (result, error) *)
Definition ok02 (c : case02) : bool :=
  let l := map fst (d_in c) in
  let tv := tv_of (d_in c) in
  match take_hdrs (d_res c) l with
  | None => false                                         (* not a prefix of the input *)
  | Some v =>
    chain_verified_b (d_now c) (d_drift c) tv (d_t c) v
    && consecutive_b v
    && is_verr_obs (d_err c)
    && Bool.eqb (is_nil_obs (d_err c)) (Nat.eqb (length v) (length l) && negb (Nat.eqb (length l) 0))
    && (is_nil_obs (d_err c) ||
        match skipn (length v) l with
        | [] => Nat.eqb (length l) 0
        | u :: _ =>
          (* the first header not returned is bad *)
          match Verify (d_now c) (d_drift c) tv (last v (d_t c)) u with
          | Some _ => true
          | None => negb (Nat.eqb (length v) 0) && negb (wrap64 (h_height (last v (d_t c)) + 1) =? h_height u)
          end
        end)
  end.

Definition chk02 (c : case02) : bool * bool * N :=
  let m := model02 c in
  (list_eqb N.eqb (fst m) (d_res c) && eobs_eqb (snd m) (d_err c), ok02 c, 0).
