(** Correspondence oracle for C01/C02: observation type, decidable property
    checkers evaluated on the implementation's observations, and the lemmas
    tying the checkers to the model. *)
From GH Require Import Base.Prelude Model.Verify Proofs.VerifyP.

(** what the harness can observe of an error returned by Verify / VerifyRange *)
Inductive eobs :=
| ONil
| OSent (s : sentinel) (soft : bool)
| OType (e : N) (soft : bool)
| OEmptyRange (soft : bool)
| ONonAdj (soft : bool)
| OOther.       (* not a *VerifyError, or a panic *)

Definition sent_eqb (a b : sentinel) : bool :=
  match a, b with
  | EZero, EZero | EWrongChain, EWrongChain | EKnown, EKnown
  | EUnordered, EUnordered | EFuture, EFuture => true
  | _, _ => false
  end.

Definition eobs_eqb (a b : eobs) : bool :=
  match a, b with
  | ONil, ONil => true
  | OSent s x, OSent s' x' => sent_eqb s s' && Bool.eqb x x'
  | OType e x, OType e' x' => (e =? e') && Bool.eqb x x'
  | OEmptyRange x, OEmptyRange x' => Bool.eqb x x'
  | ONonAdj x, ONonAdj x' => Bool.eqb x x'
  | _, _ => false
  end.

Definition obs_of (r : option verr) : eobs :=
  match r with
  | None => ONil
  | Some (VErr (RSent s) soft) => OSent s soft
  | Some (VErr (RType e) soft) => OType e soft
  | Some (VErr REmptyRange soft) => OEmptyRange soft
  | Some (VErr RNonAdjacent soft) => ONonAdj soft
  end.

Record case01 := Case01 {
  c_now : Z; c_drift : Z; c_tv : tvres; c_t : hdr; c_u : hdr; c_obs : eobs }.

Definition model01 (c : case01) : eobs :=
  obs_of (Verify (c_now c) (c_drift c) (fun _ _ => c_tv c) (c_t c) (c_u c)).

(** the property, restated as a decidable check on an observation: which of
    the mandatory conditions fails first, independent of the model's code path *)
Definition first_failing (now drift : Z) (t u : hdr) : option sentinel :=
  if h_nil t || h_nil u then Some EZero
  else if negb (h_chain u =? h_chain t) then Some EWrongChain
  else if negb (h_height t <? h_height u) then Some EKnown
  else if negb (h_time t <=? h_time u)%Z then Some EUnordered
  else if negb (h_time u <=? now + drift)%Z then Some EFuture
  else None.

Definition ok01 (c : case01) : bool :=
  let ff := first_failing (c_now c) (c_drift c) (c_t c) (c_u c) in
  match c_obs c with
  | ONil => match ff, c_tv c with None, TVOk => true | _, _ => false end
  | OSent s soft => negb soft && match ff with Some s' => sent_eqb s s' | None => false end
  | OType e soft =>
    match ff, tv_err_id (c_tv c) with
    | None, Some e' => (e =? e') && Bool.eqb soft (negb (adjacent (c_t c) (c_u c)) || tv_soft (c_tv c))
    | _, _ => false
    end
  | _ => false
  end.

Definition chk01 (c : case01) : bool * bool * N :=
  (eobs_eqb (model01 c) (c_obs c), ok01 c, 0).

Lemma first_failing_eq now drift t u : first_failing now drift t u = verify_mand now drift t u.
Proof.
  unfold first_failing, verify_mand.
  destruct (h_nil t), (h_nil u); cbn; try reflexivity.
  destruct (h_chain u =? h_chain t); cbn; [|reflexivity].
  destruct (N.ltb_spec (h_height t) (h_height u)), (N.leb_spec (h_height u) (h_height t)); cbn; try lia; [|reflexivity].
  destruct (Z.leb_spec (h_time t) (h_time u)), (Z.ltb_spec (h_time u) (h_time t)); cbn; try lia; [|reflexivity].
  destruct (Z.leb_spec (h_time u) (now + drift)), (Z.ltb_spec (now + drift) (h_time u)); cbn; try lia; reflexivity.
Qed.

(** the model's own observation always satisfies the oracle *)
Theorem model01_ok : forall now drift tvr t u,
  ok01 (Case01 now drift tvr t u (model01 (Case01 now drift tvr t u ONil))) = true.
Proof.
  intros. unfold ok01, model01, Verify; cbn [c_now c_drift c_tv c_t c_u c_obs].
  rewrite first_failing_eq.
  destruct (verify_mand now drift t u) as [s|]; cbn.
  - destruct s; reflexivity.
  - destruct tvr; cbn; rewrite ?N.eqb_refl; cbn; try reflexivity;
      try destruct soft; destruct (adjacent t u); reflexivity.
Qed.

(** ** C02 *)
Record case02 := Case02 {
  d_now : Z; d_drift : Z; d_t : hdr;
  d_in : list (hdr * tvres);     (* the untrusted range, each with the scripted type-level result *)
  d_res : list N;                (* ids of the returned headers *)
  d_err : eobs }.

Definition tv_of (l : list (hdr * tvres)) (t u : hdr) : tvres :=
  match find (fun p => h_id (fst p) =? h_id u) l with
  | Some p => snd p
  | None => TVOk
  end.

Definition model02 (c : case02) : list N * eobs :=
  let '(v, e) := VerifyRange (d_now c) (d_drift c) (tv_of (d_in c)) (d_t c) (map fst (d_in c)) in
  (map h_id v, obs_of e).

Fixpoint take_hdrs (ids : list N) (l : list hdr) : option (list hdr) :=
  match ids, l with
  | [], _ => Some []
  | i :: ir, h :: lr => if i =? h_id h then option_map (cons h) (take_hdrs ir lr) else None
  | _ :: _, [] => None
  end.

Fixpoint chain_verified_b now drift tv (t : hdr) (l : list hdr) : bool :=
  match l with
  | [] => true
  | u :: r => match Verify now drift tv t u with None => chain_verified_b now drift tv u r | _ => false end
  end.

Fixpoint consecutive_b (l : list hdr) : bool :=
  match l with
  | a :: ((b :: _) as r) => (wrap64 (h_height a + 1) =? h_height b) && consecutive_b r
  | _ => true
  end.

Definition is_nil_obs (e : eobs) : bool := match e with ONil => true | _ => false end.
Definition is_verr_obs (e : eobs) : bool := match e with OOther => false | _ => true end.

(** the property C02 as a decidable check of an observed (result, error) *)
Definition ok02 (c : case02) : bool :=
  let l := map fst (d_in c) in
  let tv := tv_of (d_in c) in
  match take_hdrs (d_res c) l with
  | None => false                                         (* not a prefix of the input *)
  | Some v =>
    chain_verified_b (d_now c) (d_drift c) tv (d_t c) v
    && consecutive_b v
    && is_verr_obs (d_err c)
    && Bool.eqb (is_nil_obs (d_err c)) (Nat.eqb (length v) (length l) && negb (Nat.eqb (length l) 0))
    && (is_nil_obs (d_err c) ||
        match skipn (length v) l with
        | [] => Nat.eqb (length l) 0
        | u :: _ =>
          (* the first header not returned is bad *)
          match Verify (d_now c) (d_drift c) tv (last v (d_t c)) u with
          | Some _ => true
          | None => negb (Nat.eqb (length v) 0) && negb (wrap64 (h_height (last v (d_t c)) + 1) =? h_height u)
          end
        end)
  end.

Definition chk02 (c : case02) : bool * bool * N :=
  let m := model02 c in
  (list_eqb N.eqb (fst m) (d_res c) && eobs_eqb (snd m) (d_err c), ok02 c, 0).


(** ** C01 extension: sequences of Verify calls on type-level results that are Go objects
    (argument-dependent verifier given as a lookup table, wrapper identities, typed nil,
    kept *VerifyError instances) *)
Inductive xobs :=
| XONil
| XOSent (s : sentinel) (soft : bool)
| XOType (e : N) (soft : bool) (via : option N)  (* via: the wrapper errors.As still finds in the result *)
| XONilPtr                                        (* the error is a nil *VerifyError *)
| XOPanic
| XOOther.

Definition xobs_eqb (a b : xobs) : bool :=
  match a, b with
  | XONil, XONil | XONilPtr, XONilPtr | XOPanic, XOPanic => true
  | XOSent s x, XOSent s' x' => sent_eqb s s' && Bool.eqb x x'
  | XOType e x v, XOType e' x' v' => (e =? e') && Bool.eqb x x' && option_eqb N.eqb v v'
  | _, _ => false
  end.

Definition xobs_of (x : xres) : xobs :=
  match x with
  | XNil => XONil
  | XErr (RSent s) soft _ => XOSent s soft
  | XErr (RType e) soft via => XOType e soft via
  | XErr _ _ _ => XOOther
  | XNilPtr => XONilPtr
  | XPanic => XOPanic
  end.

Record xcall := XCall { k_now : Z; k_t : hdr; k_u : hdr; k_obs : xobs }.
Record case01x := Case01x {
  x_drift : Z;
  x_tab : list (N * N * tvx);   (* (hash of trusted, hash of untrusted) -> what the type's Verify answers; XOk elsewhere *)
  x_soft0 : list N;             (* the kept instances whose SoftFailure the TYPE set (initial memory) *)
  x_calls : list xcall }.

Definition tab_tv (tab : list (N * N * tvx)) (t u : hdr) : tvx :=
  match find (fun p => (fst (fst p) =? h_id t) && (snd (fst p) =? h_id u)) tab with
  | Some p => snd p
  | None => XOk
  end.
Definition heap0 (l : list N) : heap := fun c => existsb (N.eqb c) l.

Definition model01x (c : case01x) : list xobs :=
  map xobs_of (fst (Verify_seq (x_drift c) (tab_tv (x_tab c)) (heap0 (x_soft0 c))
                               (map (fun k => (k_now k, k_t k, k_u k)) (x_calls c)))).

Definition tvx_is_nilptr (r : tvx) : bool := match r with XTypedNil => true | _ => false end.
Definition tvx_is_ok (r : tvx) : bool := match r with XOk => true | _ => false end.
Definition tvx_cell (r : tvx) : option N := match r with XShared _ c _ => Some c | _ => None end.

(** the property on ONE observed call, memory-free: SoftFailure exactly when the header is
    non-adjacent or the TYPE reported soft ([h0]: what the type itself put into its objects) *)
Definition ok_call (drift : Z) (tv : hdr -> hdr -> tvx) (h0 : heap) (k : xcall) : bool :=
  let ff := first_failing (k_now k) drift (k_t k) (k_u k) in
  let r := tv (k_t k) (k_u k) in
  match k_obs k with
  | XONil => match ff with None => tvx_is_ok r | Some _ => false end
  | XOSent s soft => negb soft && match ff with Some s' => sent_eqb s s' | None => false end
  | XOType e soft _ =>
    match ff, tvx_err_id r with
    | None, Some e' => (e =? e') && Bool.eqb soft (negb (adjacent (k_t k) (k_u k)) || tvx_soft h0 r)
    | _, _ => false
    end
  | XONilPtr | XOPanic => match ff with None => tvx_is_nilptr r | Some _ => false end   (* no acceptance; a type-level bug *)
  | XOOther => false
  end.

Definition chk01x (c : case01x) : bool * bool * N :=
  (list_eqb xobs_eqb (model01x c) (map k_obs (x_calls c)),
   forallb (ok_call (x_drift c) (tab_tv (x_tab c)) (heap0 (x_soft0 c))) (x_calls c), 0).
  (* F32 (fixed by /repo dd31b07) had class 1 here: an adjacent failure reported soft after a
     non-adjacent one with the same kept instance; its witness stays in the driver's corpus *)

(** the model's own observation of a call satisfies the property whenever the memory still
    shows what the type put there (always: since /repo dd31b07 no call writes, seq_no_write) *)
Theorem model_call_ok drift tv h0 h now t u :
  tvx_soft h (tv t u) = tvx_soft h0 (tv t u) ->
  ok_call drift tv h0 (XCall now t u (xobs_of (fst (Verify_x now drift tv h t u)))) = true.
Proof.
  intros Hs. unfold ok_call, Verify_x; cbn [k_now k_t k_u k_obs].
  rewrite first_failing_eq.
  destruct (verify_mand now drift t u) as [s|]; cbn.
  - destruct s; reflexivity.
  - destruct (tv t u) as [|e|s e|w s e| |w c e]; cbn in Hs |- *;
      destruct (adjacent t u); cbn; rewrite ?N.eqb_refl; cbn; try reflexivity;
      try (destruct s; reflexivity).
    rewrite Hs, Bool.eqb_reflx. reflexivity.
Qed.

(** ... and so does every observation the model makes of a whole case (the memory is never written) *)
Theorem model01x_ok : forall drift tab soft0 (calls : list (Z * hdr * hdr)),
  let tv := tab_tv tab in
  let h0 := heap0 soft0 in
  forallb (ok_call drift tv h0)
    (map (fun p => XCall (fst (fst (fst p))) (snd (fst (fst p))) (snd (fst p)) (xobs_of (snd p)))
         (combine calls (fst (Verify_seq drift tv h0 calls)))) = true.
Proof.
  intros drift tab soft0 calls tv h0.
  destruct (seq_no_write drift tv calls h0) as [_ ->].
  induction calls as [|[[now t] u] r IH]; cbn; [reflexivity|].
  rewrite IH, Bool.andb_true_r. apply model_call_ok. reflexivity.
Qed.

(** ** C02 under the link policy: the type-level check sees the ROLLING trusted header *)
Record case02l := Case02l {
  l_now : Z; l_drift : Z; l_trust : N; l_t : hdr; l_in : list hdr; l_res : list N; l_err : eobs }.

Definition model02l (c : case02l) : list N * eobs :=
  let '(v, e) := VerifyRange (l_now c) (l_drift c) (vlink_tv (l_trust c)) (l_t c) (l_in c) in
  (map h_id v, obs_of e).

Fixpoint linked_b (t : hdr) (l : list hdr) : bool :=
  match l with [] => true | u :: r => (h_prev u =? h_id t) && linked_b u r end.
Fixpoint times_b (t : hdr) (l : list hdr) : bool :=
  match l with [] => true | u :: r => (h_time t <=? h_time u)%Z && (h_height t <? h_height u) && times_b u r end.

Definition ok02l (c : case02l) : bool :=
  let l := l_in c in
  let tv := vlink_tv (l_trust c) in
  match take_hdrs (l_res c) l with
  | None => false
  | Some v =>
    chain_verified_b (l_now c) (l_drift c) tv (l_t c) v
    && consecutive_b v
    && times_b (l_t c) v
    && match v with [] => true | a :: r => linked_b a r end
    && is_verr_obs (l_err c)
    && Bool.eqb (is_nil_obs (l_err c)) (Nat.eqb (length v) (length l) && negb (Nat.eqb (length l) 0))
    && (is_nil_obs (l_err c) ||
        match skipn (length v) l with
        | [] => Nat.eqb (length l) 0
        | u :: _ =>
          match Verify (l_now c) (l_drift c) tv (last v (l_t c)) u with
          | Some _ => true
          | None => negb (Nat.eqb (length v) 0) && negb (wrap64 (h_height (last v (l_t c)) + 1) =? h_height u)
          end
        end)
  end.

Definition chk02l (c : case02l) : bool * bool * N :=
  let m := model02l c in
  (list_eqb N.eqb (fst m) (l_res c) && eobs_eqb (snd m) (l_err c), ok02l c, 0).

(** the two checks the link policy adds hold of everything the model returns *)
Lemma linked_b_spec t l : linked_from t l -> linked_b t l = true.
Proof. revert t. induction l as [|u r IH]; intros t; cbn; [auto|]. intros [-> H]. rewrite N.eqb_refl. cbn. auto. Qed.
Lemma times_b_spec t l : times_from t l -> heights_from t l -> times_b t l = true.
Proof.
  revert t. induction l as [|u r IH]; intros t; cbn; [auto|]. intros [Ht H] [Hh H'].
  rewrite (IH u H H'). destruct (Z.leb_spec (h_time t) (h_time u)), (N.ltb_spec (h_height t) (h_height u)); auto; lia.
Qed.
Theorem model02l_linked_times now drift trust t l :
  let v := fst (VerifyRange now drift (vlink_tv trust) t l) in
  times_b t v = true /\ match v with [] => true | a :: r => linked_b a r end = true.
Proof.
  intros v. split.
  - destruct (range_times_heights now drift (vlink_tv trust) t l). apply times_b_spec; assumption.
  - pose proof (range_link_policy trust now drift t l) as H. fold v in H.
    destruct v; [reflexivity|]. apply linked_b_spec, H.
Qed.
