(** Correspondence interface for failing datastore writes inside DeleteRange (C08, C14; finding F29).

    A case is a fault-free history ([fc_pre], judged as every store history: Oracle/StoreCase.v),
    then ONE DeleteRange during which the write attempts listed in [fc_wf] fail (indices counted
    from the start of the call), with the implementation's observations, then a continuation
    ([fc_post]: the retry, appends, restarts; the last step is a clean restart) and the raw datastore.

    [agree]: Model/StoreFault.v reproduces the faulty call, Model/Store.v everything else.
    [ok]: the property on the observations alone, relative to the abstract specification state the
    fault-free prefix leads to (no model function of the faulty call is involved):
      (a) heights outside the range answer as before;
      (b) Tail and Head resolve (by height and by hash) with Tail <= Head and every height between
          them readable; nil is returned only when the deletion is complete;
      (c) the retry of a tail-side / whole-store deletion completes it;
      (d) handlers are called for stored heights of the range only, while readable, at most once
          per call, exactly once for what the call removed — also in the retry;
      (r) the clean restart that ends the case preserves Head and Tail. *)
From Coq Require Import NArith List Bool.
From stdpp Require Import gmap.
From GH Require Import Base.Prelude Model.Store Model.StoreSpec Model.StoreFault Oracle.StoreCase.
Import ListNotations.
Open Scope N_scope.

Record fcase := FCase {
  fc_ctx : bool;                         (* context-aware datastore flavour *)
  fc_batch : N;
  fc_chain : list hdr;
  fc_pre : list sstep;
  fc_from : N; fc_to : N; fc_nh : nat;
  fc_fails : list (nat * N * bool);      (* scripted handler failures *)
  fc_wf : list nat;                      (* failing write attempts *)
  fc_out : oobs; fc_log : list hobs; fc_probe : probe;
  fc_retry : bool;                       (* the first step of [fc_post] is the retry *)
  fc_post : list sstep;
  fc_dump : option dump }.

(** ** agree *)
Definition agree_fault (x : fcase) : bool :=
  let c := chain_of (fc_chain x) in
  let '(ok0, s0) := model_agrees c (st0 (fc_batch x)) (fc_pre x) in
  let '(s1, log, out) := delete_range_f (fc_ctx x) (fc_wf x) s0 (script_of (fc_fails x)) (fc_nh x) (fc_from x) (fc_to x) in
  let ok1 := oobs_eqb (oob out) (fc_out x) && log_eqb log (fc_log x) && model_probe_ok c s1 (fc_probe x) in
  let '(ok2, s2) := model_agrees c s1 (fc_post x) in
  ok0 && ok1 && ok2 && match fc_dump x with Some d => dump_matches s2 d | None => true end.

(** ** ok *)
Definition prow_of (p : probe) (n : N) : option prow := find (fun r => r_n r =? n) (p_rows p).
Definition present (p : probe) (c : N -> hdr) (n : N) : bool :=
  match prow_of p n with
  | Some r => robs_eqb (r_gbh r) (RFound n (h_id (c n))) && robs_eqb (r_get r) (RFound n (h_id (c n))) && r_has r
  | None => false
  end.
Definition absent (p : probe) (n : N) : bool :=
  match prow_of p n with
  | Some r => negb (match r_gbh r with RFound _ _ => true | _ => false end)
              && robs_eqb (r_get r) RNotFound && negb (r_has r)
  | None => false
  end.

Definition calls (log : list hobs) (k : nat) (n : N) : nat :=
  length (filter (fun o => Nat.eqb (ho_handler o) k && (ho_height o =? n)) log).

Definition heights_of (p : probe) : list N := filter (fun n => negb (n =? 0)) (map r_n (p_rows p)).

(** (b): the ends resolve and everything between them is readable *)
Definition ends_ok (c : N -> hdr) (p : probe) : bool :=
  match p_head p, p_tail p with
  | Some (H, hi), Some (T, ti) =>
    (hi =? h_id (c H)) && (ti =? h_id (c T)) && (T <=? H) && negb (T =? 0)
    && forallb (present p c) (seqN T (N.to_nat (H + 1 - T)))
  | None, None => true
  | _, _ => false
  end.

(** (d) for one call over the range [from, to) on the stored set [S]: [gone] tells what the call removed *)
Definition handlers_ok (S : gset N) (nh : nat) (from to : N) (log : list hobs) (gone : N -> bool) : bool :=
  forallb (fun o => ho_readable o && Nat.ltb (ho_handler o) nh && (from <=? ho_height o) && (ho_height o <? to)
                    && bool_decide (ho_height o ∈ S)) log
  && forallb (fun n => forallb (fun k => let cnt := calls log k n in
                                         if gone n then Nat.eqb cnt 1 else Nat.leb cnt 1) (seq 0 nh))
             (seqN from (N.to_nat (to - from))).

Definition is_whole (s : spec) (from to : N) : bool :=
  match sHT s with
  | Some (T, H) => (from =? T) && (to =? wrap64 (H + 1)) && negb (bool_decide (to ∈ sS s))
  | None => false
  end.
Definition is_tail_side (s : spec) (from : N) : bool :=
  match sHT s with Some (T, _) => from =? T | None => false end.

(** the faulty call, on a specification state in which the range is deletable *)
Definition faulty_ok (c : N -> hdr) (sp : spec) (x : fcase) : bool :=
  let p := fc_probe x in
  let from := fc_from x in let to := fc_to x in
  let range := seqN from (N.to_nat (to - from)) in
  let inS n := bool_decide (n ∈ sS sp) in
  match fc_out x with
  | OPanic => false
  | OOk =>
    (* nil: the deletion is complete, exactly as without failing writes *)
    match fail_height (sS sp) (fc_nh x) (fc_fails x) from to with
    | Some _ => false
    | None =>
      spec_probe_ok c (fst (spec_delete sp from to None)) p
      && list_eqb hobs_eqb' (expected_log (sS sp) (fc_nh x) (fc_fails x) from to None) (fc_log x)
    end
  | OFail =>
    (* (a) outside the range nothing changed *)
    forallb (fun n => if (from <=? n) && (n <? to) then true
                      else if inS n then present p c n else absent p n) (heights_of p)
    (* inside it a header is there or gone, never half of it *)
    && forallb (fun n => if inS n then present p c n || absent p n else absent p n) range
    (* (b) *)
    && ends_ok c p
    && match sHT sp, p_head p, p_tail p with
       | Some (T, H), Some (H', _), Some (T', _) =>
         if is_tail_side sp from
         then (H' =? H) && (from <=? T') && (T' <=? to)       (* the head stays, the tail is inside [from, to] *)
         else (T' =? T) && ((H' =? H) && forallb (fun n => negb (inS n) || present p c n) range
                            || (H' =? from - 1))              (* the tail stays, the head stays or sits right below the range *)
       | Some _, None, None => is_whole sp from to && forallb (absent p) range
       | _, _, _ => false
       end
    (* (d) *)
    && handlers_ok (sS sp) (fc_nh x) from to (fc_log x) (fun n => inS n && absent p n)
  end.

(** (c) and (d) for the retry: the first step of the continuation *)
Definition retry_ok (c : N -> hdr) (sp : spec) (x : fcase) : bool :=
  if negb (fc_retry x) then true else
  match fc_post x with
  | [] => false
  | r :: _ =>
    match ss_op r, ss_probe r with
    | IDelete f t nh _, Some q =>
      let from := fc_from x in let to := fc_to x in
      let range := seqN from (N.to_nat (to - from)) in
      (t =? to) && negb (match ss_out r with OPanic => true | _ => false end)
      && forallb (absent q) range
      && ends_ok c q
      && (if is_whole sp from to
          then match p_head q, p_tail q with None, None => true | _, _ => false end
          else match sHT sp, p_head q, p_tail q with
               | Some (_, H), Some (H', _), Some (T', _) => (H' =? H) && (T' =? to)
               | _, _, _ => false
               end)
      && handlers_ok (sS sp) nh from to (ss_log r)
           (fun n => bool_decide (n ∈ sS sp) && present (fc_probe x) c n)
    | _, _ => false
    end
  end.

(** (r): the clean restart at the end of the case changes neither end *)
Fixpoint last_two (l : list sstep) (prev : option probe) : option (probe * sstep) :=
  match l with
  | [] => None
  | [z] => match prev with Some p => Some (p, z) | None => None end
  | y :: r => last_two r (ss_probe y)
  end.
Definition restart_ok (x : fcase) : bool :=
  match last_two (fc_post x) (Some (fc_probe x)) with
  | Some (p, z) =>
    match ss_op z, ss_probe z with
    | IRestart, Some q | IReopen, Some q =>
      option_eqb pairN_eqb (p_head p) (p_head q) && option_eqb pairN_eqb (p_tail p) (p_tail q)
    | _, _ => true
    end
  | None => true
  end.

Fixpoint spec_after (s : spec) (steps : list sstep) : spec :=
  match steps with
  | [] => s
  | x :: r => spec_after (fst (fst (spec_step s x))) r
  end.

Definition ok_fault_core (x : fcase) : bool :=
  let c := chain_of (fc_chain x) in
  chain_ok (fc_chain x) && spec_ok c spec0 (fc_pre x)
  && (let sp := spec_after spec0 (fc_pre x) in
      if valid_delete sp (fc_from x) (fc_to x)
      then faulty_ok c sp x && retry_ok c sp x
      else (* a range that is rejected: an error and no effect, whatever fails *)
        oobs_eqb (fc_out x) OFail && match fc_log x with [] => true | _ => false end
        && spec_probe_ok c sp (fc_probe x)).

Definition ok_fault (x : fcase) : bool := ok_fault_core x && restart_ok x.

(** known-finding class 1 (F33): a failing write of a pointer key in setTail / setHead leaves the persisted
    pointer at a deleted header (the in-memory pointer has moved); a clean Stop does not rewrite the pointers
    when nothing is pending, so the next Start drops the dangling key and the end is lost.  The class: the
    core clauses hold, only (r) fails, and in the model the persisted pointers differ from the in-memory ones
    right after the faulty call. *)
Definition ptr_write_lost (x : fcase) : bool :=
  let c := chain_of (fc_chain x) in
  let '(_, s0) := model_agrees c (st0 (fc_batch x)) (fc_pre x) in
  let '(s1, _, _) := delete_range_f (fc_ctx x) (fc_wf x) s0 (script_of (fc_fails x)) (fc_nh x) (fc_from x) (fc_to x) in
  negb (option_eqb N.eqb (d_head s1) (option_map h_id (headp s1)))
  || negb (option_eqb N.eqb (d_tail s1) (option_map h_id (tailp s1))).

Definition class_fault (x : fcase) : N :=
  if ok_fault_core x && negb (restart_ok x) && ptr_write_lost x then 1 else 0.

Definition chk_fault (x : fcase) : bool * bool * N := (agree_fault x, ok_fault x, class_fault x).
