(** Correspondence oracle for C19: case type, the model run on a case, the
    property re-stated as a decidable check of the implementation's observations,
    and the lemma that the model's own observations always pass that check. *)
From Coq Require Import ZifyBool ZifyN ZifyNat.
From GH Require Import Base.Prelude Model.Verify Proofs.VerifyP Model.SyncHead Proofs.SyncHeadP.

(** Gallina twin of vhdr.LinkPolicy(range): the type-level Verify the drivers install *)
Definition link_tv (range : N) (t u : hdr) : tvres :=
  if h_height u =? wrap64 (h_height t + 1) then
    (if h_prev u =? h_id t then TVOk else TVPlain 1)
  else if (range =? 0) then TVOk
  else if range <? sub64 (h_height u) (h_height t) then TVPlain 2 else TVOk.

(** projected result of one Head() / Start() call *)
Inductive robs :=
| BOk (id height : N)      (* nil error, this header *)
| BNil                     (* Start(): nil error (the head itself is not returned) *)
| BErr (e : hres).         (* error class (never [ROk]) *)

Definition hres_code (r : hres) : N :=
  match r with ROk _ => 0 | RGetter => 1 | RCtx => 2 | RExpired => 3 | RTail => 4 | REmpty => 5 | RPanic => 6 end.

Definition robs_eqb (a b : robs) : bool :=
  match a, b with
  | BOk i h, BOk i' h' => (i =? i') && (h =? h')
  | BNil, BNil => true
  | BErr e, BErr e' => hres_code e =? hres_code e'
  | _, _ => false
  end.

Definition proj (start : bool) (r : hres) : robs :=
  match r with
  | ROk v => if start then BNil else BOk (h_id v) (h_height v)
  | e => BErr e
  end.

Definition call_eqb (a b : option N) : bool := option_eqb N.eqb a b.

(** one action of a scripted interleaving (KSched) *)
Inductive act :=
| ACall (j : nat)                              (* caller j calls Head() and runs until it blocks or returns *)
| AGossip (h : hdr) (b : bifres) (t : tans)    (* a gossip head is delivered *)
| ATick (d : N)
| AAnswer (a : gans).                          (* the open flight's getter call returns a; all callers run on *)

Inductive op19 :=
| KTick (d : N)
| KGossip (h : hdr) (b : bifres) (t : tans)
          (ok : bool) (sh : N)                       (* observed: verifier returned nil; store head height *)
| KHead (start : bool) (i : hin)
        (res : robs) (calls : list (option N)) (sh : N) (el : N)
        (* observed: result, underlying calls, store head height, virtual time the call took *)
| KConc (n : nat) (i : hin) (w : bool) (d : N)
        (res : list robs) (calls : list (option N)) (sh : N)
        (* n callers: caller 0 enters first, the others arrive while the getter's Head is
           held open; d ns pass; with [w] the others' contexts end before the answer;
           observed: the sorted results, the underlying calls *)
| KSched (n : nat) (i : hin) (acts : list act)
         (res : list robs) (gok : list bool) (calls : list (option N)) (sh : N)
        (* a scripted interleaving of up to n callers, gossip heads, clock advances and
           getter answers; observed: sorted results, gossip verdicts, underlying calls *)
| KPark (parked : bool) (g a : hdr) (i : hin)
        (r1 r2 r3 r4 : option robs)
        (* the witness of the former finding F19 (fixed by /repo dd38a4c): a gossip head g is delivered; with [parked] the
           verifier call is held between setLocalHead's store-head comparison and pending.Add;
           caller 1 learns the higher head a; the sync loop completes; caller 2 (failing answer)
           returns; the verifier call resumes; caller 1 finishes; caller 3 (failing answer),
           started after 1 and 2 returned, returns - with [parked] while the sync loop is
           held before its clean-up of pending; the sync loop runs; caller 4 returns.
           Observed: the four results. *)
| KRace (g a : hdr) (i : hin)
        (r1 r2 r3 r4 : option robs)
        (* a Head() call against the END of a sync round: caller 1 (stale head) asks the network
           and is held in the getter; a gossip head g enters pending; caller 2 returns it; caller 1
           gets the answer a (above its own subjective head, below g) and is parked inside
           pending.Add, holding the lock of the pending ranges; caller 3 starts and waits for
           that lock inside localHead; the sync loop stores everything up to g and removes it
           from pending; caller 1 is released (its header is ignored), caller 3 reads on and
           returns; later caller 4.  Observed: the four results.  Caller 3 started after caller
           2 returned: its result must not be below caller 2's. *).

Record case19 := Case19 {
  k_p : params;
  k_range : N;
  k_sync : bool;           (* the getter serves ranges: the sync loop always completes *)
  k_store : option hdr;
  k_now : Z;
  k_ops : list op19 }.

Definition post (sync : bool) (s : sstate) : sstate := if sync then sync_done s else s.

Definition ids (l : list (option hdr)) : list (option N) := map (option_map h_id) l.

(** sorting of projected results (insertion sort on a numeric key) *)
Definition robs_key (r : robs) : N :=
  match r with BOk i h => 16 + h * 4294967296 + i mod 4294967296 | BNil => 8 | BErr e => hres_code e end.
Fixpoint ins (x : robs) (l : list robs) : list robs :=
  match l with
  | [] => [x]
  | y :: r => if robs_key x <=? robs_key y then x :: l else y :: ins x r
  end.
Definition sort_robs (l : list robs) : list robs := fold_right ins [] l.

Definition expand (n : nat) (i : hin) (a : act) : list cev :=
  match a with
  | ACall j => [CStep j ICall; CStep j INone]
  | AGossip h b t => [CGossip h b t]
  | ATick d => [CTick d]
  | AAnswer a =>
    let ts := seq 0 n in
    map (fun j => CStep j (IAns a)) ts ++ map (fun j => CStep j INone) ts ++
    concat (map (fun j => [CStep j (IBif (i_b1 i)); CStep j (ITail (i_tail i)); CStep j (IBif (i_b2 i)); CStep j INone]) ts)
  end.

Definition park_c1 (g a : hdr) (i : hin) : list cev :=
  [CStep 1 ICall; CStep 1 INone; CStep 1 (IAns (GOk a)); CStep 1 (IBif (i_b1 i)); CSyncDone;
   CStep 2 ICall; CStep 2 INone; CStep 2 (IAns GFail); CStep 2 (IBif (i_b1 i))].
Definition park_c1fin (i : hin) : list cev :=
  [CStep 1 (ITail (i_tail i)); CStep 1 (IBif (i_b2 i)); CStep 1 INone].
Definition park_c3 (i : hin) : list cev :=
  [CStep 3 ICall; CStep 3 INone; CStep 3 (IAns GFail); CStep 3 (IBif (i_b1 i))].
Definition park_c4 (i : hin) : list cev :=
  [CSyncDone; CStep 4 ICall; CStep 4 INone; CStep 4 (IAns GFail); CStep 4 (IBif (i_b1 i))].

(** events before caller 3 starts *)
Definition park_l1c (g a : hdr) (i : hin) : list cev :=
  CGossip g (i_b1 i) (i_tail i) :: park_c1 g a i ++ park_c1fin i.
Definition park_l1 (parked : bool) (g a : hdr) (i : hin) : list pev :=
  if parked then
    PGossipA g :: map PEv (park_c1 g a i) ++ [PGossipB (i_tail i)] ++ map PEv (park_c1fin i)
  else map PEv (park_l1c g a i).

Definition race_l1 (g a : hdr) (i : hin) : list pev :=
  [PEv (CStep 1 ICall); PEv (CStep 1 INone);
   PEv (CGossip g (i_b1 i) (i_tail i));
   PEv (CStep 2 ICall); PEv (CStep 2 INone); PEv (CStep 2 (IAns GFail)); PEv (CStep 2 (IBif (i_b1 i)));
   PEv (CStep 1 (IAns (GOk a))); PHeadA 1;
   PEv CSyncDone; PHeadB 1] ++ map PEv (park_c1fin i).

Fixpoint ret_of (i : nat) (tr : list obs) : option hres :=
  match tr with
  | [] => None
  | ORet j r :: t => if Nat.eqb j i then Some r else ret_of i t
  | _ :: t => ret_of i t
  end.

Definition oheight (o : option robs) : option N :=
  match o with Some (BOk _ h) => Some h | _ => None end.
Definition ole (a b : option N) : bool :=
  match a, b with Some x, Some y => x <=? y | _, _ => true end.

Section run.
Variable p : params.
Variable tv : hdr -> hdr -> tvres.
Variable sync : bool.

Definition conc_model (s : sstate) (n : nat) (i : hin) (w : bool) (d : N) : sstate * list robs * list (option N) :=
  let '(c, tr) := crun p tv (cinit s) (conc_sched n i w d) in
  (c_s c, sort_robs (map (proj false) (rets_of tr)), ids (gets_of tr)).

Fixpoint sched_run (n : nat) (i : hin) (c : cstate) (acts : list act) : cstate * list obs * list bool :=
  match acts with
  | [] => (c, [], [])
  | a :: r =>
    let '(c1, t1) := crun p tv c (expand n i a) in
    let v := match a with AGossip h b t => [snd (gossip p tv (c_s c) h b t)] | _ => [] end in
    let '(c2, t2, v2) := sched_run n i c1 r in (c2, t1 ++ t2, v ++ v2)
  end.

Definition sched_model (s : sstate) (n : nat) (i : hin) (acts : list act)
  : sstate * list robs * list bool * list (option N) :=
  let '(c, tr, v) := sched_run n i (cinit s) acts in
  (c_s c, sort_robs (map (proj false) (rets_of tr)), v, ids (gets_of tr)).

Definition seg_model (s : sstate) (l1 : list pev) (i : hin)
  : sstate * option robs * option robs * option robs * option robs :=
  let '(p1, t1) := prun p tv (pinit s) l1 in
  let '(p2, t2) := prun p tv p1 (map PEv (park_c3 i)) in
  let '(p3, t3) := prun p tv p2 (map PEv (park_c4 i)) in
  (c_s (p_c p3), option_map (proj false) (ret_of 1 t1), option_map (proj false) (ret_of 2 t1),
   option_map (proj false) (ret_of 3 t2), option_map (proj false) (ret_of 4 t3)).

Definition park_model (s : sstate) (parked : bool) (g a : hdr) (i : hin) := seg_model s (park_l1 parked g a i) i.
Definition race_model (s : sstate) (g a : hdr) (i : hin) := seg_model s (race_l1 g a i) i.

(** the model's observations for a list of operations *)
Fixpoint fill (s : sstate) (ops : list op19) : list op19 :=
  match ops with
  | [] => []
  | KTick d :: r => KTick d :: fill (tick s (Z.of_N d)) r
  | KGossip h b t _ _ :: r =>
    let '(s1, ok) := gossip p tv s h b t in
    let s2 := post sync s1 in
    KGossip h b t ok (hgt (s_store s2)) :: fill s2 r
  | KHead st i _ _ _ _ :: r =>
    let o := head_seq p tv s i in
    let s2 := post sync (o_st o) in
    KHead st i (proj st (o_res o)) (ids (o_calls o)) (hgt (s_store s2)) (Z.to_N (s_now (o_st o) - s_now s)) :: fill s2 r
  | KConc n i w d _ _ _ :: r =>
    let '(s1, res, calls) := conc_model s n i w d in
    let s2 := post sync s1 in
    KConc n i w d res calls (hgt (s_store s2)) :: fill s2 r
  | KSched n i acts _ _ _ _ :: r =>
    let '(s1, res, v, calls) := sched_model s n i acts in
    let s2 := post sync s1 in
    KSched n i acts res v calls (hgt (s_store s2)) :: fill s2 r
  | KPark pk g a i _ _ _ _ :: r =>
    let '(s1, r1, r2, r3, r4) := park_model s pk g a i in
    KPark pk g a i r1 r2 r3 r4 :: fill (post sync s1) r
  | KRace g a i _ _ _ _ :: r =>
    let '(s1, r1, r2, r3, r4) := race_model s g a i in
    KRace g a i r1 r2 r3 r4 :: fill (post sync s1) r
  end.

Definition op_eqb (a b : op19) : bool :=
  match a, b with
  | KTick _, KTick _ => true
  | KGossip _ _ _ ok sh, KGossip _ _ _ ok' sh' => Bool.eqb ok ok' && (sh =? sh')
  | KHead _ _ res calls sh el, KHead _ _ res' calls' sh' el' =>
    robs_eqb res res' && list_eqb call_eqb calls calls' && (sh =? sh') && (el =? el')
  | KConc _ _ _ _ res calls sh, KConc _ _ _ _ res' calls' sh' =>
    list_eqb robs_eqb res res' && list_eqb call_eqb calls calls' && (sh =? sh')
  | KSched _ _ _ res v calls sh, KSched _ _ _ res' v' calls' sh' =>
    list_eqb robs_eqb res res' && list_eqb Bool.eqb v v' && list_eqb call_eqb calls calls' && (sh =? sh')
  | KPark _ _ _ _ r1 r2 r3 r4, KPark _ _ _ _ r1' r2' r3' r4' =>
    option_eqb robs_eqb r1 r1' && option_eqb robs_eqb r2 r2' && option_eqb robs_eqb r3 r3' &&
    option_eqb robs_eqb r4 r4'
  | KRace _ _ _ r1 r2 r3 r4, KRace _ _ _ r1' r2' r3' r4' =>
    option_eqb robs_eqb r1 r1' && option_eqb robs_eqb r2 r2' && option_eqb robs_eqb r3 r3' &&
    option_eqb robs_eqb r4 r4'
  | _, _ => false
  end.

(** ** the property, as a check of the observations.  The model is used only to
    know the Syncer's state BEFORE each operation (its subjective head and clock). *)

(** observed result is a nil-error result *)
Definition is_okres (r : robs) : bool := match r with BOk _ _ | BNil => true | BErr _ => false end.
Definition is_init_err (r : robs) : bool :=
  match r with BErr RGetter | BErr RCtx | BErr RExpired | BErr RPanic => true | _ => false end.

Definition is_subj_err (r : robs) : bool :=
  match r with BErr RGetter | BErr RCtx | BErr RExpired => true | _ => false end.

Definition fresh_b (now : Z) (a : gans) : bool :=
  match a with GOk nh => negb (h_nil nh) && negb (is_expired p now nh) | _ => false end.

Definition head_matches (start : bool) (h : hdr) (r : robs) : bool :=
  match r with
  | BOk i ht => (i =? h_id h) && (ht =? h_height h)
  | BNil => start
  | BErr _ => false
  end.

(** the clauses about one call, given the state before it *)
Definition clause_ok (s : sstate) (start : bool) (i : hin) (res : robs) (calls : list (option N)) : bool :=
  match decide p s with
  | DReturn sbj =>
    (* recent subjective head: returned, no network traffic *)
    head_matches start sbj res && match calls with [] => true | _ => false end
  | DRequest (KStale sbj) =>
    (* stale: exactly one request, carrying the subjective head; never a subjective-init error;
       a failing or not-higher answer leaves the subjective head as the result *)
    list_eqb call_eqb calls [Some (h_id sbj)] && negb (is_subj_err res) &&
    match i_ans i with
    | GFail | GHang => head_matches start sbj res
    | GOk nh => if negb (h_nil nh) && (h_height nh <=? h_height sbj) then head_matches start sbj res else true
    | GSoft _ => true
    end
  | DRequest KInit =>
    (* (re)initialisation: exactly one request without trusted head; succeeds only if the
       trusted peers' head is itself not expired *)
    list_eqb call_eqb calls [None] &&
    (if fresh_b (s_now s) (i_ans i) then true else is_init_err res)
  end.

Definition olist (o : option robs) : list robs := match o with Some r => [r] | None => [] end.

Definition mono_ok (lo : N) (r : robs) : bool :=
  match r with BOk _ h => lo <=? h | _ => true end.
Definition new_lo (lo : N) (r : robs) : N :=
  match r with BOk _ h => N.max lo h | _ => lo end.

Definition keeps_b (sbj : hdr) (a : gans) : bool :=
  match a with
  | GFail | GHang => true
  | GOk nh => negb (h_nil nh) && (h_height nh <=? h_height sbj)
  | GSoft _ => false
  end.

(** concurrent callers: one underlying call for all of them (none if the head is
    recent), carrying the subjective head; they all see its result: a failing or
    not-higher answer leaves every caller with the subjective head, a trusted-peer
    head that is not fresh makes every caller fail; no result below an earlier one *)
Definition conc_ok (s : sstate) (lo : N) (n : nat) (i : hin) (d : N) (res : list robs) (calls : list (option N)) : bool :=
  forallb (mono_ok lo) res &&
  (Nat.eqb n 0 ||
  match decide p s with
  | DReturn _ => match calls with [] => true | _ => false end
  | DRequest k =>
    list_eqb call_eqb calls [option_map h_id (trusted_of k)] &&
    match k with
    | KStale sbj => if keeps_b sbj (i_ans i) then forallb (head_matches false sbj) res else true
    | KInit => if fresh_b (s_now s + Z.of_N d) (i_ans i) then true else forallb is_init_err res
    end
  end).

(** (re)initialisation only adopts a head from trusted peers, for a scripted interleaving.
    [init_on_trusted c n]: some caller that decided (re)initialisation (no or an expired subjective
    head) is waiting for the single flight while its leader asked WITH a trusted head (a stale-head
    request, which tracked peers may answer).  [sched_bad]: that happens after some action of the
    script (callers run until they block, so this is where a joiner sits).  The clause: whenever it
    happens, the implementation must have issued a request WITHOUT a trusted head (observed in
    [calls]) -- the (re)initialising caller must not be served by the stale-head request. *)
Definition init_on_trusted (c : cstate) (n : nat) : bool :=
  existsb (fun j => match c_pc c j with PWait KInit _ => true | _ => false end) (seq 0 n) &&
  existsb (fun j => match c_pc c j with PLead (KStale _) => true | _ => false end) (seq 0 n).

Fixpoint sched_bad (n : nat) (i : hin) (c : cstate) (acts : list act) : bool :=
  match acts with
  | [] => false
  | a :: r => let c1 := fst (crun p tv c (expand n i a)) in init_on_trusted c1 n || sched_bad n i c1 r
  end.

Definition is_untrusted_call (o : option N) : bool := match o with None => true | Some _ => false end.

Definition sched_init_ok (s : sstate) (n : nat) (i : hin) (acts : list act) (calls : list (option N)) : bool :=
  negb (sched_bad n i (cinit s) acts) || existsb is_untrusted_call calls.

(** [strict = false] leaves out the clause of the open known finding F31 (sched_init_ok) *)
Fixpoint ok_ops (strict : bool) (s : sstate) (lo : N) (ops : list op19) : bool :=
  match ops with
  | [] => true
  | KTick d :: r => ok_ops strict (tick s (Z.of_N d)) lo r
  | KGossip h b t _ _ :: r => ok_ops strict (post sync (fst (gossip p tv s h b t))) lo r
  | KHead st i res calls _ _ :: r =>
    clause_ok s st i res calls && mono_ok lo res &&
    ok_ops strict (post sync (o_st (head_seq p tv s i))) (new_lo lo res) r
  | KConc n i w d res calls _ :: r =>
    conc_ok s lo n i d res calls &&
    ok_ops strict (post sync (fst (fst (conc_model s n i w d)))) (fold_left new_lo res lo) r
  | KSched n i acts res _ calls _ :: r =>
    forallb (mono_ok lo) res && (negb strict || sched_init_ok s n i acts calls) &&
    ok_ops strict (post sync (fst (fst (fst (sched_model s n i acts))))) (fold_left new_lo res lo) r
  | KPark pk g a i r1 r2 r3 r4 :: r =>
    (* callers 1 and 2 returned before caller 3 started: its result is not below theirs *)
    let l := olist r1 ++ olist r2 ++ olist r3 ++ olist r4 in
    forallb (mono_ok lo) l && ole (oheight r1) (oheight r3) && ole (oheight r2) (oheight r3) &&
    ok_ops strict (post sync (fst (fst (fst (fst (park_model s pk g a i)))))) (fold_left new_lo l lo) r
  | KRace g a i r1 r2 r3 r4 :: r =>
    (* caller 2 returned before caller 3 started (caller 1 overlaps both) *)
    let l := olist r1 ++ olist r2 ++ olist r3 ++ olist r4 in
    forallb (mono_ok lo) l && ole (oheight r2) (oheight r3) &&
    ok_ops strict (post sync (fst (fst (fst (fst (race_model s g a i)))))) (fold_left new_lo l lo) r
  end.

End run.

Definition s0_of (c : case19) : sstate := SState (k_store c) None (k_now c).

Definition model19 (c : case19) : list op19 :=
  fill (k_p c) (link_tv (k_range c)) (k_sync c) (s0_of c) (k_ops c).

Definition ok19 (c : case19) : bool :=
  ok_ops (k_p c) (link_tv (k_range c)) (k_sync c) true (s0_of c) 0 (k_ops c).

(** everything except the clause of F31 *)
Definition ok19_loose (c : case19) : bool :=
  ok_ops (k_p c) (link_tv (k_range c)) (k_sync c) false (s0_of c) 0 (k_ops c).

(** open known finding F31, class 31 (the single flight of sync/sync_head.go is shared across
    request kinds): exactly the cases in which the ONLY failing clause is [sched_init_ok] -- in a
    scripted interleaving a (re)initialising caller sat on a flight opened with a trusted head and
    no request without trusted head was observed.  Any other failure keeps class 0.
    (F19, a parked setLocalHead lowering the local head, was repaired by /repo dd38a4c; its witness
    case (KPark true) is an ordinary case.) *)
Definition class19 (c : case19) : N :=
  if ok19_loose c && negb (ok19 c) then 31 else 0.

Definition chk19 (c : case19) : bool * bool * N :=
  (list_eqb op_eqb (model19 c) (k_ops c), ok19 c, class19 c).

(** ** the model's own observations always pass the check *)

Lemma forallb_ins P x l : forallb P (ins x l) = P x && forallb P l.
Proof.
  induction l as [|y l IH]; cbn; [reflexivity|].
  destruct (robs_key x <=? robs_key y); cbn; [reflexivity|]. rewrite IH.
  destruct (P x), (P y); reflexivity.
Qed.

Lemma forallb_sort P l : forallb P (sort_robs l) = forallb P l.
Proof. unfold sort_robs. induction l as [|x l IH]; cbn; [reflexivity|]. rewrite forallb_ins, IH. reflexivity. Qed.

Lemma in_ins y x l : In y (ins x l) -> y = x \/ In y l.
Proof.
  induction l as [|z l IH]; cbn; [intros [<-|[]]; auto|].
  destruct (robs_key x <=? robs_key z); cbn; [intros [<-|H]; auto|].
  intros [<-|H]; [auto|]. destruct (IH H); auto.
Qed.

Lemma in_sort y l : In y (sort_robs l) -> In y l.
Proof. unfold sort_robs. induction l as [|x l IH]; cbn; [auto|]. intros H. apply in_ins in H. destruct H; auto. Qed.

Lemma fold_new_lo M res : forall lo, lo <= M ->
  (forall i h, In (BOk i h) res -> h <= M) -> fold_left new_lo res lo <= M.
Proof.
  induction res as [|r res IH]; intros lo Hlo Hr; cbn; [exact Hlo|].
  apply IH; [|intros i h Hin; eapply Hr; right; exact Hin].
  destruct r as [i h| |e]; cbn; try exact Hlo. specialize (Hr i h (or_introl eq_refl)). lia.
Qed.

Lemma call_eqb_refl a : call_eqb a a = true.
Proof. destruct a; cbn; [apply N.eqb_refl|reflexivity]. Qed.

Section ok.
Variable p : params.
Variable tv : hdr -> hdr -> tvres.
Variable sync : bool.

Lemma post_L s : L s <= L (post sync s).
Proof. unfold post. destruct sync; [apply sync_done_mono|lia]. Qed.

Lemma head_matches_proj st h : head_matches st h (proj st (ROk h)) = true.
Proof. unfold proj, head_matches. destruct st; [reflexivity|]. rewrite !N.eqb_refl. reflexivity. Qed.

Lemma clause_ok_model s st i :
  clause_ok p s st i (proj st (o_res (head_seq p tv s i))) (ids (o_calls (head_seq p tv s i))) = true.
Proof.
  unfold clause_ok. rewrite head_seq_calls.
  destruct (decide p s) as [sbj|[|sbj]] eqn:Hd.
  - unfold head_seq. rewrite Hd. cbn. rewrite head_matches_proj. reflexivity.
  - (* init *)
    cbn. assert (Hi : needs_init p s).
    { unfold decide in Hd. unfold needs_init. destruct (local_head s) as [x|]; [|left; reflexivity].
      destruct (is_expired p (s_now s) x) eqn:He; [right; eauto|]. destruct (is_recent _ _ _); discriminate. }
    destruct (fresh_b p (s_now s) (i_ans i)) eqn:Hf; [reflexivity|].
    assert (Hn : ~ fresh_answer p (s_now s) (i_ans i)).
    { intros (nh & Ha & Hnil & He). unfold fresh_b in Hf. rewrite Ha, Hnil, He in Hf. discriminate. }
    destruct (init_rejects p tv s i Hi Hn) as [Hr _].
    destruct (o_res (head_seq p tv s i)); cbn; try contradiction; reflexivity.
  - (* stale *)
    cbn. rewrite N.eqb_refl. cbn.
    assert (H1 : local_head s = Some sbj) by (apply (decide_stale p); exact Hd).
    assert (H2 : is_expired p (s_now s) sbj = false /\ is_recent p (s_now s) sbj = false).
    { unfold decide in Hd. rewrite H1 in Hd. destruct (is_expired _ _ _); [discriminate|].
      destruct (is_recent _ _ _); [discriminate|]. auto. }
    destruct H2 as [H2 H3].
    pose proof (stale_never_init_error p tv s sbj i H1 H2 H3) as Hne.
    assert (Hs : is_subj_err (proj st (o_res (head_seq p tv s i))) = false).
    { destruct (o_res (head_seq p tv s i)); cbn; try contradiction; try reflexivity. destruct st; reflexivity. }
    rewrite Hs. cbn.
    destruct (i_ans i) as [nh|nh| |] eqn:Ha; try reflexivity.
    + destruct (h_nil nh) eqn:Hnil; cbn; [reflexivity|].
      destruct (N.leb_spec (h_height nh) (h_height sbj)); [|reflexivity].
      destruct (stale_fail_keeps p tv s sbj i H1 H2 H3) as [-> _]; [rewrite Ha; auto|]. apply head_matches_proj.
    + destruct (stale_fail_keeps p tv s sbj i H1 H2 H3) as [-> _]; [rewrite Ha; auto|]. apply head_matches_proj.
    + destruct (stale_fail_keeps p tv s sbj i H1 H2 H3) as [-> _]; [rewrite Ha; auto|]. apply head_matches_proj.
Qed.

Lemma mono_ok_proj lo st r : (forall v, r = ROk v -> lo <= h_height v) -> mono_ok lo (proj st r) = true.
Proof.
  intros H. destruct r as [v| | | | | |]; cbn; try reflexivity. destruct st; cbn; [reflexivity|].
  apply N.leb_le. apply H. reflexivity.
Qed.

Lemma new_lo_proj lo st r M : lo <= M -> (forall v, r = ROk v -> h_height v <= M) -> new_lo lo (proj st r) <= M.
Proof.
  intros Hlo H. destruct r as [v| | | | | |]; cbn; try exact Hlo. destruct st; cbn; [exact Hlo|].
  specialize (H v eq_refl). lia.
Qed.

Lemma head_matches_all sbj (l : list hres) :
  (forall r, In r l -> r = ROk sbj) -> forallb (head_matches false sbj) (sort_robs (map (proj false) l)) = true.
Proof.
  intros H. rewrite forallb_sort. apply forallb_forall. intros x Hx. apply in_map_iff in Hx.
  destruct Hx as (r & <- & Hr). rewrite (H r Hr). apply (head_matches_proj false).
Qed.

Lemma init_err_all (l : list hres) :
  (forall r, In r l -> init_err r) -> forallb is_init_err (sort_robs (map (proj false) l)) = true.
Proof.
  intros H. rewrite forallb_sort. apply forallb_forall. intros x Hx. apply in_map_iff in Hx.
  destruct Hx as (r & <- & Hr). specialize (H r Hr). destruct r; cbn in *; try contradiction; reflexivity.
Qed.

Lemma run_bounds s l c tr lo : lo <= L s -> crun p tv (cinit s) l = (c, tr) ->
  forallb (mono_ok lo) (sort_robs (map (proj false) (rets_of tr))) = true /\
  fold_left new_lo (sort_robs (map (proj false) (rets_of tr))) lo <= L (c_s c).
Proof.
  intros Hlo Hr.
  destruct (run_upper p tv _ _ _ _ (cinit_below s) Hr) as (_ & Hup & Hle).
  assert (Hge : forall b v, In (ORet b (ROk v)) tr -> L s <= h_height v).
  { intros b v Hin.
    assert (HJ : sbj_above (L s) b (cinit s)) by (split; [cbn; lia|discriminate]).
    destruct (run_lower p tv _ _ _ _ _ _ HJ Hr) as (_ & Hl). apply Hl. exact Hin. }
  split.
  - rewrite forallb_sort. apply forallb_forall. intros r Hin. apply in_map_iff in Hin.
    destruct Hin as (x & <- & Hx). apply mono_ok_proj. intros v ->.
    destruct (rets_of_in _ _ Hx) as [b Hb]. specialize (Hge _ _ Hb). lia.
  - apply fold_new_lo; [cbn in Hup; lia|].
    intros j h Hin. apply in_sort in Hin. apply in_map_iff in Hin. destruct Hin as (x & Hx & Hin).
    destruct x as [v| | | | | |]; cbn in Hx; try discriminate. injection Hx as _ <-.
    destruct (rets_of_in _ _ Hin) as [b Hb]. apply (Hle _ _ Hb).
Qed.

Lemma conc_ok_model s lo n i w d : lo <= L s ->
  let '(s1, res, calls) := conc_model p tv s n i w d in
  conc_ok p s lo n i d res calls = true /\ fold_left new_lo res lo <= L s1.
Proof.
  intros Hlo. unfold conc_model.
  pose proof (conc_calls p tv s n i w d) as Hc.
  pose proof (conc_rets_good p tv s n i w d) as Hg.
  destruct (crun p tv (cinit s) (conc_sched n i w d)) as [c tr] eqn:Hr. cbn [snd] in Hc, Hg.
  destruct (run_bounds s _ _ _ lo Hlo Hr) as [Hb1 Hb2].
  split; [|exact Hb2].
  unfold conc_ok. rewrite Hb1. cbn [andb].
  destruct (Nat.eqb_spec n 0) as [|Hn]; [reflexivity|]. cbn [orb]. rewrite (Hc Hn).
  destruct (decide p s) as [h|k] eqn:Hd; [reflexivity|]. cbn [ids map list_eqb]. rewrite call_eqb_refl. cbn [andb].
  destruct k as [|sbj].
  - destruct (fresh_b p (s_now s + Z.of_N d) (i_ans i)) eqn:Hf; [reflexivity|].
    apply init_err_all.
    apply (Hg KInit (unfresh p (s_now s + Z.of_N d)) init_err eq_refl); [|exact I| |exact Hn].
    + intros s' a b Ha Ht. apply (unfresh_inert p tv _ s' a b Ha Ht).
    + unfold fresh_b in Hf. destruct (i_ans i) as [nh| | |]; cbn; try exact I.
      destruct (h_nil nh); [left; reflexivity|]. destruct (is_expired _ _ nh); [right; reflexivity|discriminate].
  - destruct (keeps_b sbj (i_ans i)) eqn:Hk; [|reflexivity].
    apply head_matches_all.
    apply (Hg (KStale sbj) (keeps sbj) (fun r => r = ROk sbj) eq_refl); [|exact I| |exact Hn].
    + intros s' a b Ha _. apply (keeps_inert p tv sbj s' a b Ha).
    + unfold keeps_b in Hk. destruct (i_ans i) as [nh| | |]; cbn; try exact I; try discriminate.
      apply andb_true_iff in Hk. destruct Hk as [H1 H2]. split; [destruct (h_nil nh); [discriminate|reflexivity]|].
      apply N.leb_le. exact H2.
Qed.

Lemma sched_run_crun n i acts : forall c,
  crun p tv c (concat (map (expand n i) acts)) =
  (fst (fst (sched_run p tv n i c acts)), snd (fst (sched_run p tv n i c acts))).
Proof.
  induction acts as [|a acts IH]; intros c; [reflexivity|].
  cbn [map concat sched_run]. rewrite crun_app.
  destruct (crun p tv c (expand n i a)) as [c1 t1]. rewrite IH.
  destruct (sched_run p tv n i c1 acts) as [[c2 t2] v2]. reflexivity.
Qed.

Lemma sched_ok_model s lo n i acts : lo <= L s ->
  let '(s1, res, v, calls) := sched_model p tv s n i acts in
  forallb (mono_ok lo) res = true /\ fold_left new_lo res lo <= L s1.
Proof.
  intros Hlo. unfold sched_model.
  pose proof (sched_run_crun n i acts (cinit s)) as Hr.
  destruct (sched_run p tv n i (cinit s) acts) as [[c tr] v]. cbn [fst snd] in Hr.
  apply (run_bounds s _ _ _ lo Hlo Hr).
Qed.

Lemma ret_of_in i tr r : ret_of i tr = Some r -> In (ORet i r) tr.
Proof.
  induction tr as [|x tr IH]; cbn; [discriminate|].
  destruct x; try (intros H; right; apply IH; exact H).
  destruct (Nat.eqb_spec i0 i) as [->|Hne]; [intros [= ->]; left; reflexivity|intros H; right; apply IH; exact H].
Qed.

Lemma untouched j l : forall c c' tr, crun p tv c l = (c', tr) ->
  (forall x, ~ In (CStep j x) l) -> c_pc c' j = c_pc c j.
Proof.
  induction l as [|e l IH]; intros c c' tr; cbn; [intros [= <- <-] _; reflexivity|].
  destruct (cstep p tv c e) as [c1 o1] eqn:Hs. destruct (crun p tv c1 l) as [c2 o2] eqn:Hr.
  intros [= <- <-] Hn. rewrite (IH _ _ _ Hr) by (intros x Hx; apply (Hn x); right; exact Hx).
  destruct e as [d|h b t|h| |i x]; cbn in Hs; try (injection Hs as <- <-; reflexivity).
  eapply tstep_others; [exact Hs|]. intros ->. apply (Hn x). left. reflexivity.
Qed.

Lemma oproj_ok lo (o : option hres) : (forall v, o = Some (ROk v) -> lo <= h_height v) ->
  forallb (mono_ok lo) (olist (option_map (proj false) o)) = true.
Proof.
  intros H. destruct o as [r|]; [|reflexivity]. cbn. rewrite mono_ok_proj; [reflexivity|].
  intros v ->. apply H. reflexivity.
Qed.

Lemma ole_proj (o1 o3 : option hres) :
  (forall v1 v3, o1 = Some (ROk v1) -> o3 = Some (ROk v3) -> h_height v1 <= h_height v3) ->
  ole (oheight (option_map (proj false) o1)) (oheight (option_map (proj false) o3)) = true.
Proof.
  intros H. destruct o1 as [[v1| | | | | |]|], o3 as [[v3| | | | | |]|]; try reflexivity.
  cbn. apply N.leb_le. apply H; reflexivity.
Qed.

Lemma park_l1_untouched pk g a i e : In e (park_l1 pk g a i) -> ~ touches 3 e.
Proof.
  unfold park_l1, park_l1c, park_c1, park_c1fin. destruct pk; cbn; intros H;
    repeat (destruct H as [<-|H]; [cbn; try discriminate; tauto|]); destruct H.
Qed.

Lemma seg_ok s lo l1 i : (forall e, In e l1 -> ~ touches 3 e) -> lo <= L s ->
  let '(s1, r1, r2, r3, r4) := seg_model p tv s l1 i in
  let l := olist r1 ++ olist r2 ++ olist r3 ++ olist r4 in
  forallb (mono_ok lo) l && ole (oheight r1) (oheight r3) && ole (oheight r2) (oheight r3) = true /\
  fold_left new_lo l lo <= L s1.
Proof.
  intros Hunt Hlo. unfold seg_model.
  destruct (prun p tv (pinit s) l1) as [q1 t1] eqn:H1.
  destruct (prun p tv q1 (map PEv (park_c3 i))) as [q2 t2] eqn:H2.
  destruct (prun p tv q2 (map PEv (park_c4 i))) as [q3 t3] eqn:H3.
  assert (Hall : prun p tv (pinit s) (l1 ++ map PEv (park_c3 i) ++ map PEv (park_c4 i)) = (q3, t1 ++ t2 ++ t3))
    by (rewrite prun_app, H1, prun_app, H2, H3; reflexivity).
  destruct (prun_upper p tv _ (pinit s) _ _ (cinit_below s) Hall) as (_ & Hup & Hle).
  assert (Hge : forall b v, In (ORet b (ROk v)) (t1 ++ t2 ++ t3) -> L s <= h_height v).
  { intros b v Hin.
    assert (HJ : sbj_above (L s) b (p_c (pinit s))) by (split; [cbn; lia|discriminate]).
    destruct (prun_lower p tv _ _ _ _ _ _ HJ Hall) as (_ & Hl). apply Hl. exact Hin. }
  assert (Hidle : c_pc (p_c q1) 3%nat = PIdle).
  { rewrite (puntouched p tv 3 _ _ _ _ H1); [reflexivity|]. exact Hunt. }
  assert (Hord : forall j v1 v3, ret_of j t1 = Some (ROk v1) -> ret_of 3 t2 = Some (ROk v3) ->
                 h_height v1 <= h_height v3).
  { intros j v1 v3 Hj H3'. eapply (monotone_full p tv s _ _ _ _ _ _ j 3%nat v1 v3 H1 H2);
      [apply ret_of_in; exact Hj|exact Hidle|apply ret_of_in; exact H3']. }
  assert (I1 : forall b r, ret_of b t1 = Some r -> In (ORet b r) (t1 ++ t2 ++ t3))
    by (intros b r Hr; apply in_or_app; left; apply ret_of_in; exact Hr).
  assert (I2 : forall b r, ret_of b t2 = Some r -> In (ORet b r) (t1 ++ t2 ++ t3))
    by (intros b r Hr; apply in_or_app; right; apply in_or_app; left; apply ret_of_in; exact Hr).
  assert (I3 : forall b r, ret_of b t3 = Some r -> In (ORet b r) (t1 ++ t2 ++ t3))
    by (intros b r Hr; apply in_or_app; right; apply in_or_app; right; apply ret_of_in; exact Hr).
  split.
  - rewrite !forallb_app. rewrite !oproj_ok.
    + cbn [andb]. rewrite (ole_proj (ret_of 1 t1) (ret_of 3 t2)), (ole_proj (ret_of 2 t1) (ret_of 3 t2)); [reflexivity| |].
      * intros v1 v3 Ha Hb. eapply Hord; eassumption.
      * intros v1 v3 Ha Hb. eapply Hord; eassumption.
    + intros v Hv. specialize (Hge _ v (I3 _ _ Hv)). lia.
    + intros v Hv. specialize (Hge _ v (I2 _ _ Hv)). lia.
    + intros v Hv. specialize (Hge _ v (I1 _ _ Hv)). lia.
    + intros v Hv. specialize (Hge _ v (I1 _ _ Hv)). lia.
  - apply fold_new_lo; [cbn in Hup; lia|].
    intros j h Hin.
    assert (Hx : forall (o : option hres) b, (forall r, o = Some r -> In (ORet b r) (t1 ++ t2 ++ t3)) ->
                 In (BOk j h) (olist (option_map (proj false) o)) -> h <= L (c_s (p_c q3))).
    { intros o b Ho Hi. destruct o as [[v| | | | | |]|]; cbn in Hi; try (destruct Hi as [Hi|[]]; discriminate); try contradiction.
      destruct Hi as [Hi|[]]. injection Hi as _ <-. apply (Hle b). apply Ho. reflexivity. }
    apply in_app_or in Hin. destruct Hin as [Hin|Hin]; [eapply Hx; [|exact Hin]; apply I1|].
    apply in_app_or in Hin. destruct Hin as [Hin|Hin]; [eapply Hx; [|exact Hin]; apply I1|].
    apply in_app_or in Hin. destruct Hin as [Hin|Hin]; [eapply Hx; [|exact Hin]; apply I2|].
    eapply Hx; [|exact Hin]; apply I3.
Qed.

Lemma race_l1_untouched g a i e : In e (race_l1 g a i) -> ~ touches 3 e.
Proof.
  unfold race_l1, park_c1fin. cbn. intros H;
    repeat (destruct H as [<-|H]; [cbn; try discriminate; tauto|]); destruct H.
Qed.

Lemma park_ok_model s lo pk g a i : lo <= L s ->
  let '(s1, r1, r2, r3, r4) := park_model p tv s pk g a i in
  let l := olist r1 ++ olist r2 ++ olist r3 ++ olist r4 in
  forallb (mono_ok lo) l && ole (oheight r1) (oheight r3) && ole (oheight r2) (oheight r3) = true /\
  fold_left new_lo l lo <= L s1.
Proof. intros Hlo. apply seg_ok; [intros e He; eapply park_l1_untouched; exact He|exact Hlo]. Qed.

Lemma race_ok_model s lo g a i : lo <= L s ->
  let '(s1, r1, r2, r3, r4) := race_model p tv s g a i in
  let l := olist r1 ++ olist r2 ++ olist r3 ++ olist r4 in
  forallb (mono_ok lo) l && ole (oheight r2) (oheight r3) = true /\
  fold_left new_lo l lo <= L s1.
Proof.
  intros Hlo. pose proof (seg_ok s lo (race_l1 g a i) i (race_l1_untouched g a i) Hlo) as H.
  unfold race_model. destruct (seg_model p tv s (race_l1 g a i) i) as [[[[s1 r1] r2] r3] r4].
  destruct H as [H1 H2]. split; [|exact H2].
  apply andb_true_iff in H1. destruct H1 as [H1 Hb]. apply andb_true_iff in H1. destruct H1 as [H1 _].
  rewrite H1, Hb. reflexivity.
Qed.

Lemma ok_fill ops : forall s lo, lo <= L s -> ok_ops p tv sync false s lo (fill p tv sync s ops) = true.
Proof.
  induction ops as [|o ops IH]; intros s lo Hlo; cbn; [reflexivity|].
  destruct o as [d|h b t ok sh|st i res calls sh el|n i w d res calls sh|n i acts res gok calls sh|pk g a i r1 r2 r3 r4|g a i r1 r2 r3 r4]; cbn.
  - apply IH; exact Hlo.
  - pose proof (gossip_mono p tv s h b t) as Hm.
    destruct (gossip p tv s h b t) as [s1 ok'] eqn:Hg. cbn in *. rewrite Hg. cbn. apply IH. eapply N.le_trans; [|apply post_L]; lia.
  - rewrite clause_ok_model. cbn.
    destruct (head_seq_bounds p tv s i) as [Hb1 Hb2].
    rewrite mono_ok_proj by (intros v Hv; specialize (Hb2 v Hv); lia). cbn.
    apply IH. eapply N.le_trans; [|apply post_L]. apply new_lo_proj; [lia|]. intros v Hv. apply (Hb2 v Hv).
  - pose proof (conc_ok_model s lo n i w d Hlo) as Hc.
    destruct (conc_model p tv s n i w d) as [[s1 res'] calls'] eqn:Hm. cbn. rewrite Hm. cbn.
    destruct Hc as [-> Hf]. cbn. apply IH. eapply N.le_trans; [exact Hf|apply post_L].
  - pose proof (sched_ok_model s lo n i acts Hlo) as Hc.
    destruct (sched_model p tv s n i acts) as [[[s1 res'] v'] calls'] eqn:Hm. cbn. rewrite Hm. cbn.
    destruct Hc as [-> Hf]. cbn. apply IH. eapply N.le_trans; [exact Hf|apply post_L].
  - pose proof (park_ok_model s lo pk g a i Hlo) as Hc.
    destruct (park_model p tv s pk g a i) as [[[[s1 q1] q2] q3] q4] eqn:Hm. cbn. rewrite Hm. cbn.
    destruct Hc as [-> Hf]. cbn. apply IH. eapply N.le_trans; [exact Hf|apply post_L].
  - pose proof (race_ok_model s lo g a i Hlo) as Hc.
    destruct (race_model p tv s g a i) as [[[[s1 q1] q2] q3] q4] eqn:Hm. cbn. rewrite Hm. cbn.
    destruct Hc as [-> Hf]. cbn. apply IH. eapply N.le_trans; [exact Hf|apply post_L].
Qed.

End ok.

(** for every case: the check accepts the observations the model itself produces -- all clauses
    but the one of the open finding F31 ... *)
Theorem model19_ok_loose : forall p range sync store now ops,
  ok19_loose (Case19 p range sync store now (model19 (Case19 p range sync store now ops))) = true.
Proof.
  intros p range sync store now ops. unfold ok19_loose, model19. cbn. apply ok_fill. lia.
Qed.

(** ... and all of them outside the finding's class *)
Theorem model19_ok : forall p range sync store now ops,
  let c := Case19 p range sync store now (model19 (Case19 p range sync store now ops)) in
  class19 c = 0 -> ok19 c = true.
Proof.
  intros p range sync store now ops c. unfold class19. unfold c at 1. rewrite model19_ok_loose.
  destruct (ok19 c); [reflexivity | discriminate].
Qed.

(** the finding's witness on the model (the faithful model of the unfixed code): class 31 *)
Example model19_f31_class :
  let i := HIn 5 GFail ([], false) (TOk None) ([], false) in
  let ops := [KSched 2 i [ACall 0; ATick 2; ACall 1; AAnswer (GOk f31_new)] [] [] [] 0] in
  let c := Case19 f31_p 0 false (Some f31_sbj) 99 (model19 (Case19 f31_p 0 false (Some f31_sbj) 99 ops)) in
  chk19 c = (true, false, 31).
Proof. vm_compute. reflexivity. Qed.

(** the former witness of F19: the model now shows 20, 20, 20, 20 *)
Example model19_park_fixed :
  model19 (Case19 rf_p 0 false (Some (rf_h 17)) 1000
            [KPark true (rf_h 19) (rf_h 20) (HIn 5 GFail ([], false) (TOk None) ([], false)) None None None None])
  = [KPark true (rf_h 19) (rf_h 20) (HIn 5 GFail ([], false) (TOk None) ([], false))
       (Some (BOk 20 20)) (Some (BOk 20 20)) (Some (BOk 20 20)) (Some (BOk 20 20))].
Proof. vm_compute. reflexivity. Qed.
