(** Correspondence oracle for C09 (Exchange.Head): the case record emitted by
    harness/c09, the model run on a case ([model09]), the comparison with the
    implementation's observation ([agree09]), the property restated as a
    decidable check of an observation ([ok09]) and the lemma that every outcome
    the model allows passes that check ([model09_ok]). *)
From GH Require Import Base.Prelude Model.Verify Model.HeadQuorum Proofs.HeadQuorumP.
From Coq Require Import ZifyBool ZifyNat ZifyN Arith.
Local Open Scope nat_scope.

(** the error Head returned, as far as the property talks about it *)
Inductive eobs9 :=
| ENil
| EVerr (v : verr)     (* a *VerifyError: reason and SoftFailure flag *)
| ENotFound            (* header.ErrNotFound *)
| ECtx                 (* context.Canceled / DeadlineExceeded *)
| EOther.              (* anything else, a panic, or Head never returned *)

(** one arrived answer: the clock reading of the per-peer goroutine when it
    handled the answer (header.Verify reads time.Now per call), the frames the
    peer wrote to the stream in order (the client reads at most Amount = 1 of
    them), and the type-level verdict scripted for the header of the first frame *)
Record tans := TAns { a_time : Z; a_frames : list resp; a_tv : tvres }.

Definition a_resp (a : tans) : resp := head_frame (a_frames a).

Record case09 := Case09 {
  k_now : Z;                      (* the clock when Head was called (no answer is older) *)
  k_drift : Z;
  k_want : option N;              (* ClientParameters.chainID, None = not configured *)
  k_t : hdr;                      (* WithTrustedHead(t); hdr_nil = option not given *)
  k_ntrusted : nat;               (* trusted peers handed to NewExchange *)
  k_ntracked : nat;               (* peers connected (tracked) when Head was called *)
  k_maxreq : nat;                 (* maxUntrustedHeadRequests *)
  k_n : nat;                      (* observed: number of peers that received a request *)
  k_pool : bool;                  (* observed: the asked peers are exactly the trusted peers (no trusted head)
                                     resp. distinct tracked peers (with one; trusted peers if none is tracked) *)
  k_arr : list tans;              (* the answers in arrival order (peers that never answer are absent) *)
  k_steps : nat;                  (* observed: answers released when Head returned *)
  k_hdr : option (N * N);         (* observed: height and hash of the returned header; None = zero header *)
  k_err : eobs9 }.                (* observed *)

(** ** running the model on a case *)

Definition tv_tab (l : list tans) (_ u : hdr) : tvres :=
  match find (fun p => match a_resp p with RGot h => (h_id h =? h_id u)%N | RFail => false end) l with
  | Some p => a_tv p
  | None => TVOk
  end.

Definition model09 (c : case09) : nat * list outcome :=
  HeadF (k_drift c) (tv_tab (k_arr c)) (k_want c) (k_t c) (k_n c)
        (map (fun a => (a_time a, a_frames a)) (k_arr c)).

Definition sent_eqb (a b : sentinel) : bool :=
  match a, b with
  | EZero, EZero | EWrongChain, EWrongChain | EKnown, EKnown
  | EUnordered, EUnordered | EFuture, EFuture => true
  | _, _ => false
  end.

Definition reason_eqb (a b : reason) : bool :=
  match a, b with
  | RSent s, RSent s' => sent_eqb s s'
  | RType e, RType e' => (e =? e')%N
  | REmptyRange, REmptyRange | RNonAdjacent, RNonAdjacent => true
  | _, _ => false
  end.

Definition verr_eqb (a b : verr) : bool :=
  reason_eqb (ve_reason a) (ve_reason b) && Bool.eqb (ve_soft a) (ve_soft b).

Definition eobs9_eqb (a b : eobs9) : bool :=
  match a, b with
  | ENil, ENil | ENotFound, ENotFound | ECtx, ECtx => true
  | EVerr v, EVerr v' => verr_eqb v v'
  | _, _ => false
  end.

Definition err_obs (e : option verr) : eobs9 := match e with None => ENil | Some v => EVerr v end.

Definition obs_of (o : outcome) : option (N * N) * eobs9 :=
  match o with
  | OHead h e => (Some (h_height h, h_id h), err_obs e)
  | ONotFound => (None, ENotFound)
  | OCtx => (None, ECtx)
  end.

Definition hdrobs_eqb (a b : option (N * N)) : bool :=
  match a, b with
  | None, None => true
  | Some (x, y), Some (x', y') => (x =? x')%N && (y =? y')%N
  | _, _ => false
  end.

Definition tvres_eqb (a b : tvres) : bool :=
  match a, b with
  | TVOk, TVOk => true
  | TVPlain e, TVPlain e' => (e =? e')%N
  | TVVerr s e, TVVerr s' e' | TVWrapped s e, TVWrapped s' e' => Bool.eqb s s' && (e =? e')%N
  | _, _ => false
  end.

(** a well-formed case: a hash stands for one header with one scripted verdict *)
Definition same_id_same (x y : tans) : bool :=
  match a_resp x, a_resp y with
  | RGot h, RGot h' => if (h_id h =? h_id h')%N then hdr_eqb h h' && tvres_eqb (a_tv x) (a_tv y) else true
  | _, _ => true
  end.

Definition wf09 (c : case09) : bool :=
  forallb (fun x => forallb (same_id_same x) (k_arr c)) (k_arr c) &&
  forallb (fun x => (k_now c <=? a_time x)%Z) (k_arr c).

Definition agree09 (c : case09) : bool :=
  wf09 c &&
  (k_n c =? asked_count (negb (h_nil (k_t c))) (k_ntrusted c) (k_ntracked c) (k_maxreq c)) &&
  k_pool c && (length (k_arr c) <=? k_n c) &&
  let '(k, outs) := model09 c in
  (k =? k_steps c) &&
  existsb (fun o => hdrobs_eqb (fst (obs_of o)) (k_hdr c) && eobs9_eqb (snd (obs_of o)) (k_err c)) outs.

(** ** the property, restated on the observation *)

(** ceil(2n/3) written differently from the code *)
Definition q_spec (n : nat) : nat := if n <=? 2 then n else n - n / 3.

(** is the answer a usable header, and with which verdict of its own? (each
    answer is judged with the verdict scripted for IT, not through a table, at
    ITS OWN arrival time, and by its FIRST frame only: whatever else the peer
    wrote is never read) *)
Definition adm9 (c : case09) (r : tans) : ans :=
  match a_frames r with
  | [] => NoHdr
  | RFail :: _ => NoHdr
  | RGot h :: _ =>
    if negb (h_ok h) then NoHdr else
    if negb (chain_ok (k_want c) h) then NoHdr else
    if h_nil (k_t c) then AHdr h None else
    match Verify (a_time r) (k_drift c) (fun _ _ => a_tv r) (k_t c) h with
    | None => AHdr h None
    | Some v => if ve_soft v then AHdr h (Some v) else NoHdr
    end
  end.

(** the returned error is the header's own verdict: nil iff it passed, else its soft VerifyError *)
Definition err_is (e : option verr) (o : eobs9) : bool :=
  match e, o with
  | None, ENil => true
  | Some v, EVerr v' => verr_eqb v v' && ve_soft v'
  | _, _ => false
  end.

Definition asked_ok (c : case09) : bool :=
  k_pool c &&
  (if h_nil (k_t c) then k_n c =? k_ntrusted c
   else if k_ntracked c =? 0 then k_n c =? k_ntrusted c
   else if k_maxreq c =? 0 then true      (* not constrained by the property *)
   else k_n c =? Nat.min (k_ntracked c) (k_maxreq c)).

Definition ok09 (c : case09) : bool :=
  let arr := map (adm9 c) (k_arr c) in
  let n := k_n c in
  let q := q_spec n in
  let k := k_steps c in
  asked_ok c && (length arr <=? n) &&
  match k_hdr c with
  | Some (ht, id) =>
    (* a supplied header that passed the request checks, returned with its own verdict *)
    existsb (fun a => match a with
                      | AHdr h e => negb (h_nil h) && (h_id h =? id)%N && (h_height h =? ht)%N && err_is e (k_err c)
                      | NoHdr => false
                      end) arr
    && ( (* reported by a quorum, returned at the shortest prefix that contains one *)
         ((1 <=? k) && (k <=? length arr) && nqb q (firstn (k - 1) arr) &&
          (q <=? count_id id (firstn k arr)) && (0 <? hit id (nth (k - 1) arr NoHdr)))
         || (* everybody answered, no quorum: nothing supplied is higher *)
         ((k =? n) && (length arr =? n) && nqb q arr &&
          forallb (fun h => (h_height h <=? ht)%N) (hdrs_of arr)) )
  | None =>
    match k_err c with
    | ENotFound => (k =? n) && (length arr =? n) && match hdrs_of arr with [] => true | _ => false end
    | ECtx => (length arr <? n) && (k =? length arr) && nqb q arr
    | _ => false
    end
  end.

Definition chk09 (c : case09) : bool * bool * N := (agree09 c, ok09 c, 0%N).

(** ** the model's own observations satisfy the oracle *)

Lemma q_spec_eq n : q_spec n = min_resp n.
Proof.
  unfold q_spec, min_resp. destruct (n <=? 2); [reflexivity|].
  pose proof (Nat.div_mod n 3 ltac:(lia)). pose proof (Nat.mod_upper_bound n 3 ltac:(lia)).
  pose proof (Nat.div_mod (n * 2 + 2) 3 ltac:(lia)). pose proof (Nat.mod_upper_bound (n * 2 + 2) 3 ltac:(lia)).
  lia.
Qed.

Lemma hdr_eqb_eq a b : hdr_eqb a b = true -> a = b.
Proof.
  destruct a, b. unfold hdr_eqb. cbn. intros H.
  repeat (apply andb_prop in H as [H ?]).
  repeat match goal with
         | X : Bool.eqb _ _ = true |- _ => apply Bool.eqb_prop in X
         | X : (_ =? _)%N = true |- _ => apply N.eqb_eq in X
         | X : (_ =? _)%Z = true |- _ => apply Z.eqb_eq in X
         end.
  congruence.
Qed.

Lemma tvres_eqb_eq a b : tvres_eqb a b = true -> a = b.
Proof.
  destruct a, b; cbn; try discriminate; try reflexivity; intros H;
    repeat (apply andb_prop in H as [H ?]);
    repeat match goal with
           | X : Bool.eqb _ _ = true |- _ => apply Bool.eqb_prop in X
           | X : (_ =? _)%N = true |- _ => apply N.eqb_eq in X
           end; congruence.
Qed.

Lemma sent_eqb_refl s : sent_eqb s s = true.
Proof. destruct s; reflexivity. Qed.

Lemma verr_eqb_refl v : verr_eqb v v = true.
Proof.
  unfold verr_eqb. rewrite Bool.eqb_reflx, andb_true_r.
  destruct (ve_reason v); cbn; auto using sent_eqb_refl, N.eqb_refl.
Qed.

Section ok.
Variable c : case09.
Hypothesis Hwf : wf09 c = true.

Let timed := map (fun a => (a_time a, a_resp a)) (k_arr c).
Let arrM := map (answer_at (k_drift c) (tv_tab (k_arr c)) (k_want c) (k_t c)) timed.

Lemma model09_eq : model09 c = head_run (k_n c) arrM.
Proof. unfold model09, HeadF, HeadT, arrM, timed. rewrite !map_map. reflexivity. Qed.

Lemma wf_pair x y : In x (k_arr c) -> In y (k_arr c) -> same_id_same x y = true.
Proof.
  intros Hx Hy. unfold wf09 in Hwf. apply andb_prop in Hwf as [Hw _]. rewrite forallb_forall in Hw. specialize (Hw x Hx).
  rewrite forallb_forall in Hw. exact (Hw y Hy).
Qed.

Lemma tv_tab_own h a t0 : In a (k_arr c) -> a_resp a = RGot h -> tv_tab (k_arr c) t0 h = a_tv a.
Proof.
  intros Hin Ea. unfold tv_tab.
  destruct (find _ (k_arr c)) as [p|] eqn:Ef.
  - apply find_some in Ef as (Hp & Hid).
    destruct (a_resp p) as [|h'] eqn:Ep; [discriminate|]. apply N.eqb_eq in Hid.
    pose proof (wf_pair p a Hp Hin) as Hs. unfold same_id_same in Hs. rewrite Ep, Ea in Hs.
    rewrite Hid, N.eqb_refl in Hs. apply andb_prop in Hs as [_ Hs]. now apply tvres_eqb_eq in Hs.
  - exfalso. pose proof (find_none _ _ Ef a Hin) as Hx. cbn beta in Hx. rewrite Ea, N.eqb_refl in Hx. discriminate.
Qed.

Lemma adm9_model : map (adm9 c) (k_arr c) = arrM.
Proof.
  unfold arrM, timed. rewrite map_map. apply map_ext_in. intros a Hin.
  unfold answer_at. cbn [fst snd].
  pose proof (tv_tab_own) as Hown. specialize (fun h => Hown h a (k_t c) Hin).
  unfold adm9, a_resp in *. destruct (a_frames a) as [|[|h] rest]; [reflexivity | reflexivity |].
  rewrite head_frame_cons in *. unfold answer, request.
  destruct (h_ok h); cbn [negb andb]; [|reflexivity].
  destruct (chain_ok (k_want c) h); cbn [negb]; [|reflexivity].
  destruct (h_nil (k_t c)); [reflexivity|].
  unfold Verify. rewrite (Hown h eq_refl). reflexivity.
Qed.

Lemma wf_hash_inj : hash_inj (map snd timed).
Proof.
  intros h h' H1 H2 Eid. unfold timed in H1, H2. rewrite map_map in H1, H2. cbn [snd] in H1, H2.
  apply in_map_iff in H1 as (a1 & E1 & H1). apply in_map_iff in H2 as (a2 & E2 & H2).
  pose proof (wf_pair _ _ H1 H2) as Hs. unfold same_id_same in Hs. rewrite E1, E2 in Hs.
  rewrite Eid, N.eqb_refl in Hs. apply andb_prop in Hs as [Hs _]. now apply hdr_eqb_eq.
Qed.

Lemma arrM_consistent : consistent arrM.
Proof. apply answers_consistent_t. exact wf_hash_inj. Qed.

Lemma arrM_soft h v : In (AHdr h (Some v)) arrM -> ve_soft v = true.
Proof.
  intros Hin. apply in_map_answer_at in Hin as (now & _ & Ha). apply answer_AHdr in Ha as (_ & _ & _ & H1 & H0).
  destruct (h_nil (k_t c)) eqn:Ht; [specialize (H1 eq_refl); discriminate|]. exact (proj2 (H0 eq_refl)).
Qed.

Lemma err_is_own h e : In (AHdr h e) arrM -> err_is e (err_obs e) = true.
Proof.
  intros Hin. destruct e as [v|]; [|reflexivity]. cbn. rewrite verr_eqb_refl. exact (arrM_soft h v Hin).
Qed.

Definition set_obs (k : nat) (o : option (N * N) * eobs9) : case09 :=
  Case09 (k_now c) (k_drift c) (k_want c) (k_t c) (k_ntrusted c) (k_ntracked c) (k_maxreq c) (k_n c) (k_pool c)
         (k_arr c) k (fst o) (snd o).

Lemma adm9_set_obs k o : map (adm9 (set_obs k o)) (k_arr c) = map (adm9 c) (k_arr c).
Proof. reflexivity. Qed.

Hypothesis Hasked : asked_ok c = true.
Hypothesis Hlen : length (k_arr c) <= k_n c.

Theorem model09_ok : forall o, In o (snd (model09 c)) ->
  ok09 (set_obs (fst (model09 c)) (obs_of o)) = true.
Proof.
  intros o Hin. unfold ok09.
  cbn [k_arr k_n k_steps k_hdr k_err set_obs].
  rewrite adm9_set_obs, adm9_model, q_spec_eq.
  change (asked_ok (set_obs (fst (model09 c)) (obs_of o))) with (asked_ok c). rewrite Hasked. cbn [andb].
  assert (HlenM : length arrM <= k_n c) by (unfold arrM, timed; now rewrite !map_length).
  destruct (Nat.leb_spec (length arrM) (k_n c)) as [_|]; [cbn [andb]|lia].
  rewrite model09_eq in Hin |- *.
  pose proof arrM_consistent as Hc.
  destruct (quorum_or_not (min_resp (k_n c)) arrM) as [Hnq|Hhq].
  - rewrite (head_run_no_quorum _ _ HlenM Hnq) in Hin |- *. cbn [fst snd] in Hin |- *.
    pose proof (proj2 (nqb_true _ _) Hnq) as Hnqb.
    destruct (Nat.ltb_spec (length arrM) (k_n c)) as [Hlt|Hge].
    + destruct Hin as [<-|[]]. cbn [obs_of fst snd]. rewrite Hnqb, Nat.eqb_refl.
      destruct (Nat.ltb_spec (length arrM) (k_n c)); [reflexivity | lia].
    + assert (El : length arrM = k_n c) by lia.
      destruct (hdrs_of arrM) as [|x xs] eqn:Eh.
      * rewrite (finish_spec_none _ Eh) in Hin. destruct Hin as [<-|[]]. cbn [obs_of fst snd].
        rewrite El, !Nat.eqb_refl. reflexivity.
      * assert (Hne : hdrs_of arrM <> []) by (rewrite Eh; discriminate).
        apply (in_finish_spec _ _ Hne) in Hin as (h & Hinh & Hmax & ->).
        apply in_hdrs_of in Hinh as (e & Hine & Hnn).
        rewrite (last_soft_consistent _ h e Hc Hine Hnn). cbn [obs_of fst snd].
        apply andb_true_intro. split.
        -- apply existsb_exists. exists (AHdr h e). split; [exact Hine|].
           rewrite Hnn, !N.eqb_refl, (err_is_own h e Hine). reflexivity.
        -- apply orb_true_intro. right. rewrite El, !Nat.eqb_refl, Hnqb. cbn [andb].
           rewrite <- Eh. apply forallb_forall. intros h' Hh'. apply N.leb_le. now apply Hmax.
  - destruct (quorum_found _ _ HlenM Hhq) as (p & h & e & rest & Earr & Hnq & Hnn & Hq & Hrun).
    rewrite Hrun in Hin |- *. cbn [fst snd] in Hin |- *. destruct Hin as [<-|[]].
    assert (Hine : In (AHdr h e) arrM) by (rewrite Earr; apply in_or_app; right; now left).
    assert (Hinc : incl (p ++ [AHdr h e]) arrM).
    { rewrite Earr. intros x Hx. apply in_app_or in Hx as [Hx|[<-|[]]]; apply in_or_app; [now left | right; now left]. }
    rewrite (last_soft_consistent (p ++ [AHdr h e]) h e (consistent_incl _ _ Hinc Hc)
               ltac:(apply in_or_app; right; now left) Hnn).
    cbn [obs_of fst snd]. apply andb_true_intro. split.
    + apply existsb_exists. exists (AHdr h e). split; [exact Hine|].
      rewrite Hnn, !N.eqb_refl, (err_is_own h e Hine). reflexivity.
    + apply orb_true_intro. left.
      replace (length p + 1 - 1) with (length p + 0) by lia.
      rewrite Earr at 2 3 4.
      rewrite (firstn_app_2 0 p), (firstn_app_2 1 p). cbn [firstn]. rewrite app_nil_r.
      rewrite (proj2 (nqb_true _ _) Hnq).
      replace (length p + 0) with (length p) by lia.
      rewrite app_nth2 by lia. rewrite Nat.sub_diag. cbn [nth]. rewrite (hit_AHdr h e Hnn).
      destruct (Nat.leb_spec (min_resp (k_n c)) (count_id (h_id h) (p ++ [AHdr h e]))); [|lia].
      assert (length p + 1 <= length arrM) by (rewrite Earr, app_length; cbn; lia).
      destruct (Nat.leb_spec 1 (length p + 1)); [|lia].
      destruct (Nat.leb_spec (length p + 1) (length arrM)); [|lia]. reflexivity.
Qed.

End ok.

(** agreement with the model implies the property check: the tie used by the verdict logic *)

Lemma sent_eqb_eq a b : sent_eqb a b = true -> a = b.
Proof. destruct a, b; cbn; congruence. Qed.

Lemma verr_eqb_eq a b : verr_eqb a b = true -> a = b.
Proof.
  destruct a as [ra sa], b as [rb sb]. unfold verr_eqb. cbn. intros H. apply andb_prop in H as [Hr Hs].
  apply Bool.eqb_prop in Hs. subst sb. f_equal.
  destruct ra, rb; cbn in Hr; try discriminate; try reflexivity.
  - f_equal. now apply sent_eqb_eq.
  - f_equal. now apply N.eqb_eq.
Qed.

Lemma eobs9_eqb_eq a b : eobs9_eqb a b = true -> a = b.
Proof. destruct a, b; cbn; try discriminate; try reflexivity. intros H. f_equal. now apply verr_eqb_eq. Qed.

Lemma hdrobs_eqb_eq a b : hdrobs_eqb a b = true -> a = b.
Proof.
  destruct a as [[x y]|], b as [[x' y']|]; cbn; try discriminate; try reflexivity.
  intros H. apply andb_prop in H as [H1 H2]. apply N.eqb_eq in H1, H2. congruence.
Qed.

Lemma asked_agree_ok c :
  k_pool c = true ->
  k_n c = asked_count (negb (h_nil (k_t c))) (k_ntrusted c) (k_ntracked c) (k_maxreq c) ->
  asked_ok c = true.
Proof.
  intros Hp Hn. unfold asked_ok. rewrite Hp. cbn [andb]. rewrite Hn.
  unfold asked_count, get_peers_count.
  destruct (h_nil (k_t c)); cbn [negb andb]; [apply Nat.eqb_refl|].
  destruct (Nat.eqb_spec (k_ntracked c) 0) as [E0|N0].
  - rewrite E0. destruct (k_maxreq c =? 0); cbn; apply Nat.eqb_refl.
  - destruct (Nat.eqb_spec (k_maxreq c) 0) as [M0|M0]; [reflexivity|].
    destruct (Nat.eqb_spec (Nat.min (k_ntracked c) (k_maxreq c)) 0); [lia|]. cbn [negb]. apply Nat.eqb_refl.
Qed.

Theorem agree09_ok : forall c, agree09 c = true -> ok09 c = true.
Proof.
  intros c H. unfold agree09 in H.
  destruct (model09 c) as [k outs] eqn:Em.
  apply andb_prop in H as [H Hx]. apply andb_prop in Hx as [Hk Hex].
  apply andb_prop in H as [H Hlen]. apply andb_prop in H as [H Hpool]. apply andb_prop in H as [H Hn].
  apply existsb_exists in Hex as (o & Hin & Ho).
  apply andb_prop in Ho as [Ho1 Ho2]. apply hdrobs_eqb_eq in Ho1. apply eobs9_eqb_eq in Ho2.
  apply Nat.eqb_eq in Hk, Hn. apply Nat.leb_le in Hlen.
  assert (Hask : asked_ok c = true) by (apply asked_agree_ok; assumption).
  assert (Hin' : In o (snd (model09 c))) by (rewrite Em; exact Hin).
  pose proof (model09_ok c H Hask Hlen o Hin') as Hok.
  rewrite Em in Hok. cbn [fst] in Hok.
  replace (set_obs c k (obs_of o)) with c in Hok; [exact Hok|].
  unfold set_obs. destruct c. cbn in *. subst. destruct (obs_of o). reflexivity.
Qed.

Print Assumptions model09_ok.
Print Assumptions agree09_ok.
