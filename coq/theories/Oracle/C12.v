(** Correspondence oracle for C12: case record, the model's projection, the
    property restated as a decidable check on the implementation's
    observation, and the lemma tying oracle to model. *)
From GH Require Import Base.Prelude Model.HeightSub Proofs.HeightSubP.

(** what the harness observes of one GetByHeight call at the end of a schedule *)
Inductive obs :=
| OBlocked            (* has not returned (parked, or never released from a gate) *)
| ODone (r : res)
| OOther.             (* returned something else (unexpected error, panic) *)

Definition res_eqb (a b : res) : bool :=
  match a, b with
  | RFound x, RFound y => x =? y
  | RNotFound, RNotFound | RCtx, RCtx | RZero, RZero => true
  | _, _ => false
  end.

Definition obs_eqb (a b : obs) : bool :=
  match a, b with
  | OBlocked, OBlocked => true
  | ODone x, ODone y => res_eqb x y
  | _, _ => false
  end.

Record case12 := Case12 {
  k_hd : option hid;        (* the store the schedule starts from, as loaded by Start: Head, *)
  k_tl : option hid;        (* Tail, *)
  k_m : list hid;           (* and the stored headers (None None []: a fresh, empty store) *)
  k_ns : list N;            (* requested height of reader 0, 1, ... *)
  k_sched : list event;     (* the schedule, at the model's granularity *)
  k_obs : list obs;         (* per reader, at the end of the schedule *)
  k_height : N;             (* Store.Height() at the end *)
  k_head : N;               (* Head().Height() at the end, 0 = ErrEmptyStore *)
  k_ret : list nat;         (* per reader: length of the schedule emitted when it was first seen returned *)
  k_probe : bool            (* every cancel probe (a call with an ended context, issued while another
                               call is held inside a datastore read) returned within its bound *)
}.

(** compact rendering of a long run of headers whose id equals their height *)
Definition hid_range (a k : N) : list hid :=
  snd (N.iter k (fun p : N * list hid => let i := fst p - 1 in (i, (i, i) :: snd p)) (a + k, [])).

Definition init0 (c : case12) : state := init (k_hd c) (k_tl c) (k_m c) (k_ns c) [].
Definition final (c : case12) : state := run (k_sched c) (init0 c).

(** decidable [wf_init]: the loaded Head and Tail are stored *)
Definition ptr_stored (p : option hid) (m : list hid) : bool :=
  match p with Some x => match map_get m (fst x) with Some _ => true | None => false end | None => true end.
Definition wf_initb (hd tl : option hid) (m : list hid) : bool := ptr_stored hd m && ptr_stored tl m.

Definition obs_of (r : reader) : obs :=
  match r_pc r with RDone x => ODone x | _ => OBlocked end.

(** the driver runs every thread it does not hold at a gate to quiescence: the
    model state at the end of the schedule must have no enabled step except
    for readers held before WaitFor (RStart: never started; RCheck1: held in
    the datastore read of their first lookup) *)
Definition reader_settled (r : reader) : bool :=
  match r_pc r with
  | RStart | RCheck1 | RDone _ => true
  | RWait PSelect false => negb (r_cancel r)
  | _ => false
  end.

Definition settled (s : state) : bool :=
  writer_idle s && forallb reader_settled (st_readers s).

Definition model12 (c : case12) : list obs * N * N :=
  let s := final c in
  (map obs_of (st_readers s), st_hsh s, hsh_of (st_head s)).

(** reader i's observation after the first [p] events *)
Definition obs_at (c : case12) (p i : nat) : obs :=
  match nth_error (st_readers (run (firstn p (k_sched c)) (init0 c))) i with
  | Some r => obs_of r
  | None => OOther
  end.

Definition ret_of (c : case12) (i : nat) : nat := nth i (k_ret c) (length (k_sched c)).

Fixpoint forall_idx {A B} (f : nat -> A -> B -> bool) (i : nat) (l : list A) (m : list B) : bool :=
  match l, m with
  | [], [] => true
  | a :: r, b :: q => f i a b && forall_idx f (S i) r q
  | _, _ => false
  end.

(** a call the driver saw returned at a checkpoint has returned, with that result, in the model too *)
Definition ret_agree (c : case12) : bool :=
  forall_idx (fun i (_ : N) o => match o with ODone _ => obs_eqb (obs_at c (ret_of c i) i) o | _ => true end)
             0 (k_ns c) (k_obs c).

Definition agree12 (c : case12) : bool :=
  let s := final c in
  wf_initb (k_hd c) (k_tl c) (k_m c) && settled s && list_eqb obs_eqb (map obs_of (st_readers s)) (k_obs c)
  && (st_hsh s =? k_height c) && (hsh_of (st_head s) =? k_head c) && ret_agree c.

(** reader i has been let past its first lookup: at least two of its steps *)
Definition released (sched : list event) (i : nat) : bool := Nat.leb 2 (rd_count sched i).

Definition hid_mem (x : hid) (l : list hid) : bool :=
  existsb (fun y => (fst x =? fst y) && (snd x =? snd y)) l.

(** is there an instant, between reader i's first own step and position [hi], at which Height()
    had reached n and n was absent? (the store's history only: appends, flush steps) *)
Fixpoint absent_at (n : N) (lo hi pos : nat) (s : state) (sched : list event) : bool :=
  (Nat.leb lo pos && Nat.leb pos hi && (n <=? st_hsh s) && match lookup s n with None => true | Some _ => false end)
  || match sched with
     | [] => false
     | e :: l => absent_at n lo hi (S pos) (step s e) l
     end.

(** the property for one call *)
Definition reader_ok (c : case12) (i : nat) (n : N) (o : obs) : bool :=
  let app := enqueued (k_sched c) in
  match o with
  | ODone (RFound id) => hid_mem (n, id) (appended_init (k_hd c) (k_tl c) (k_m c) [] ++ app)   (* the header stored for n *)
  | ODone RNotFound =>
    (n <=? k_height c)                                              (* only at or below Height() ... *)
    && absent_at n (first_own (k_sched c) i) (ret_of c i) 0         (* ... and absent at an instant of the call *)
                 (init0 c) (k_sched c)                              (*     at which Height() had reached n    *)
  | ODone RCtx => cancelled_in (k_sched c) i                        (* only when its context ended *)
  | ODone RZero => n =? 0
  | OBlocked =>
    negb (released (k_sched c) i) ||                                (* still held by the driver *)
    (negb (cancelled_in (k_sched c) i)                              (* a cancelled context releases *)
     && (k_height c <? n)                                           (* at or below Height(): prompt *)
     && negb (mem n (map fst app)))                                 (* appended and flushed: no lost wake-up *)
  | OOther => false
  end.

Definition ok12 (c : case12) : bool :=
  forall_idx (reader_ok c) 0 (k_ns c) (k_obs c) && k_probe c.

(** no open known-finding class (F5, the lost wake-up, was repaired by 33d75f6) *)
Definition chk12 (c : case12) : bool * bool * N := (agree12 c, ok12 c, 0).

(** ** the oracle is tied to the model: on the model's own observation of a
    settled run the decidable property check holds for every call. *)
Lemma forall_idx_intro {A B} (f : nat -> A -> B -> bool) : forall l m i,
  length l = length m ->
  (forall j a b, nth_error l j = Some a -> nth_error m j = Some b -> f (i + j)%nat a b = true) ->
  forall_idx f i l m = true.
Proof.
  induction l as [|a l IH]; intros [|b m] i Hl H; cbn in *; try discriminate; auto.
  apply andb_true_intro. split.
  - specialize (H O a b eq_refl eq_refl). rewrite Nat.add_0_r in H. exact H.
  - apply IH; [lia|]. intros j x y Hx Hy. specialize (H (S j) x y Hx Hy).
    replace (S i + j)%nat with (i + S j)%nat by lia. exact H.
Qed.

Lemma hid_mem_In x l : In x l -> hid_mem x l = true.
Proof.
  intros H. unfold hid_mem. apply existsb_exists. exists x. split; auto.
  rewrite !N.eqb_refl. reflexivity.
Qed.

Lemma wf_initb_ok hd tl m : wf_initb hd tl m = true -> wf_init hd tl m.
Proof.
  unfold wf_initb, ptr_stored. intros H. apply andb_prop in H as [H1 H2].
  split; intros x ->; [destruct (map_get m (fst x))|destruct (map_get m (fst x))]; discriminate.
Qed.

Definition model_case (hd tl : option hid) (m : list hid) (ns : list N) (sched : list event) (rets : list nat) : case12 :=
  let s := run sched (init hd tl m ns []) in
  Case12 hd tl m ns sched (map obs_of (st_readers s)) (st_hsh s) (hsh_of (st_head s)) rets true.

Lemma forall_idx_elim {A B} (f : nat -> A -> B -> bool) : forall l m i j a b,
  forall_idx f i l m = true -> nth_error l j = Some a -> nth_error m j = Some b -> f (i + j)%nat a b = true.
Proof.
  induction l as [|x l IH]; intros [|y m] i [|j] a b H Ha Hb; cbn in *; try discriminate.
  - apply andb_prop in H as [H _]. injection Ha as <-. injection Hb as <-. rewrite Nat.add_0_r. exact H.
  - apply andb_prop in H as [_ H]. replace (i + S j)%nat with (S i + j)%nat by lia. eapply IH; eauto.
Qed.

Lemma absent_at_intro n lo hi : forall sched s pos k, (k <= length sched)%nat ->
  (lo <= pos + k)%nat -> (pos + k <= hi)%nat ->
  n <= st_hsh (run (firstn k sched) s) -> lookup (run (firstn k sched) s) n = None ->
  absent_at n lo hi pos s sched = true.
Proof.
  induction sched as [|e l IH]; intros s pos k Hk Hlo Hhi Hh Hl.
  - cbn in Hk. assert (k = 0)%nat by lia. subst k. cbn in *. rewrite Nat.add_0_r in *.
    rewrite Hl. apply orb_true_intro. left.
    repeat (apply andb_true_intro; split); try apply Nat.leb_le; try apply N.leb_le; auto.
  - destruct k as [|k].
    + cbn [firstn run fold_left] in Hh, Hl. rewrite Nat.add_0_r in *. cbn [absent_at]. rewrite Hl.
      apply orb_true_intro. left.
      repeat (apply andb_true_intro; split); try apply Nat.leb_le; try apply N.leb_le; auto.
    + cbn [absent_at]. apply orb_true_intro. right.
      apply (IH (step s e) (S pos) k); cbn in Hk; try lia; auto.
Qed.

Lemma first_own_firstn sched i : forall t,
  (first_own sched i <= first_own (firstn t sched) i)%nat \/
  first_own (firstn t sched) i = length (firstn t sched).
Proof.
  induction sched as [|e l IH]; intros [|t]; cbn; auto.
  destruct (own_step e i); [left; lia|]. destruct (IH t) as [H|H]; [left; lia|right; lia].
Qed.

Lemma run_firstn_firstn k t sched s : (k <= t)%nat -> run (firstn k (firstn t sched)) s = run (firstn k sched) s.
Proof. intros H. rewrite firstn_firstn. replace (Nat.min k t) with k by lia. reflexivity. Qed.

Theorem model12_ok hd tl m ns sched rets :
  wf_initb hd tl m = true ->
  settled (run sched (init hd tl m ns [])) = true ->
  ret_agree (model_case hd tl m ns sched rets) = true ->
  ok12 (model_case hd tl m ns sched rets) = true.
Proof.
  intros WFb Hset Hret. pose proof (wf_initb_ok hd tl m WFb) as wf_empty.
  set (s := run sched (init hd tl m ns [])) in *.
  unfold ok12. cbn [k_probe model_case]. rewrite andb_true_r. apply forall_idx_intro.
  - cbn. rewrite map_length. fold s. unfold s. rewrite run_length. cbn. rewrite map_length. reflexivity.
  - intros j n o Hn Ho.
    pose proof (forall_idx_elim _ _ _ 0%nat j n o Hret Hn Ho) as Hrj. cbn [Nat.add] in Hrj.
    cbn in Hn, Ho. fold s in Ho. rewrite nth_error_map in Ho.
    destruct (nth_error (st_readers s) j) as [r|] eqn:E; [|discriminate].
    cbn in Ho. injection Ho as <-. cbn [Nat.add].
    destruct (run_reader_back sched _ _ _ E) as (r0 & E0 & Hn0 & _).
    apply init_reader in E0 as [E0 _]. assert (n = r_n r) by congruence. subst n.
    unfold settled in Hset. apply andb_prop in Hset as [Hidle Hrs].
    assert (Hr : reader_settled r = true).
    { rewrite forallb_forall in Hrs. apply Hrs. eapply nth_error_In; eauto. }
    assert (Hnot2 : r_pc r = RStart \/ r_pc r = RCheck1 -> released sched j = false).
    { intros Hcase. destruct (released sched j) eqn:Erel; [|reflexivity]. exfalso.
      unfold released in Erel. apply Nat.leb_le in Erel.
      destruct (run_reader_back sched _ _ _ E) as (r1 & E1 & _).
      destruct (two_steps_past_lookup sched _ j r1 E1 Erel) as (r' & E' & H1 & H2).
      fold s in E'. rewrite E in E'. injection E' as <-. destruct Hcase; congruence. }
    unfold obs_of in *. unfold model_case in *. fold s in Hrj |- *.
    destruct (r_pc r) as [| | |ph sig| |x] eqn:Epc.
    + cbn [reader_ok k_sched]. rewrite Hnot2; auto.
    + cbn [reader_ok k_sched]. rewrite Hnot2; auto.
    + unfold reader_settled in Hr. rewrite Epc in Hr. discriminate.
    + cbn [reader_ok k_sched k_height]. unfold reader_settled in Hr. rewrite Epc in Hr.
      destruct ph; try discriminate. destruct sig; [discriminate|]. apply negb_true_iff in Hr.
      assert (Hnc : cancelled_in sched j = false).
      { destruct (cancelled_in sched j) eqn:Ec; [|reflexivity].
        pose proof (cancelled_flag sched _ j r E Ec). congruence. }
      assert (Hpk : parked r = true) by (unfold parked; rewrite Epc; reflexivity).
      assert (Hw : st_w s = WIdle).
      { unfold writer_idle in Hidle. destruct (st_w s); try discriminate. reflexivity. }
      destruct (waiter_above_height hd tl m ns [] sched j r wf_empty E Hpk Hw) as [Hlt _]. fold s in Hlt.
      apply N.ltb_lt in Hlt. rewrite Hnc, Hlt. cbn.
      destruct (mem (r_n r) (map fst (enqueued sched))) eqn:Em; [|apply orb_true_r].
      exfalso. apply mem_In in Em.
      pose proof (no_lost_wakeup hd tl m ns [] sched j r wf_empty E Hidle Em) as Hb.
      unfold blocked in Hb. rewrite Epc in Hb. discriminate.
    + unfold reader_settled in Hr. rewrite Epc in Hr. discriminate.
    + destruct (returns_only_when_due hd tl m ns [] sched j r x wf_empty E Epc) as [_ H].
      destruct x; cbn [reader_ok k_sched k_height k_ns].
      * apply hid_mem_In. exact H.
      * apply andb_true_intro. split; [apply N.leb_le; exact H|].
        (* the witness instant, taken from the prefix at which the driver saw the call returned *)
        set (c := Case12 hd tl m ns sched (map obs_of (st_readers s)) (st_hsh s) (hsh_of (st_head s)) rets true) in *.
        set (t := ret_of c j) in *. set (p := firstn t sched).
        unfold obs_at in Hrj. change (k_sched c) with sched in Hrj. change (init0 c) with (init hd tl m ns []) in Hrj. fold p in Hrj.
        destruct (nth_error (st_readers (run p (init hd tl m ns []))) j) as [rp|] eqn:Ep; [|cbn in Hrj; discriminate].
        assert (Hpp : r_pc rp = RDone RNotFound).
        { unfold obs_of in Hrj. destruct (r_pc rp) as [| | | | |[| | |]]; cbn in Hrj; try discriminate. reflexivity. }
        destruct (notfound_only_when_absent hd tl m ns [] p j rp wf_empty Ep Hpp) as (k & Hk & H1 & H2 & _).
        assert (Hrn : r_n rp = r_n r).
        { destruct (run_reader_back p _ _ _ Ep) as (rq & Eq & Hq & _). apply init_reader in Eq as [Eq _]. congruence. }
        assert (Hlen : (length p <= t)%nat) by (unfold p; rewrite firstn_length; lia).
        assert (Hlen2 : (length p <= length sched)%nat) by (unfold p; rewrite firstn_length; lia).
        unfold p in H1, H2. rewrite run_firstn_firstn in H1, H2 by lia. rewrite Hrn in H1, H2.
        apply (absent_at_intro (r_n r) _ _ sched _ 0%nat k); cbn [Nat.add]; try lia; auto.
        destruct (first_own_firstn sched j t) as [Hf|Hf]; fold p in Hf; lia.
      * exact H.
      * apply N.eqb_eq. exact H.
Qed.

(** and it always agrees with itself (for checkpoints at which the calls have returned) *)
Theorem model12_agree hd tl m ns sched rets :
  wf_initb hd tl m = true ->
  settled (run sched (init hd tl m ns [])) = true ->
  ret_agree (model_case hd tl m ns sched rets) = true -> agree12 (model_case hd tl m ns sched rets) = true.
Proof.
  intros WFb Hset Hret. unfold agree12. change (final (model_case hd tl m ns sched rets)) with (run sched (init hd tl m ns [])).
  cbn [k_hd k_tl k_m model_case]. rewrite WFb, Hset, Hret. cbn [k_obs k_height k_head model_case]. rewrite !N.eqb_refl, !andb_true_r. cbn.
  induction (st_readers (run sched (init hd tl m ns []))) as [|r l IH]; cbn; [reflexivity|].
  rewrite IH, andb_true_r. unfold obs_of. destruct (r_pc r) as [| | | | |[id| | |]]; cbn; auto. apply N.eqb_refl.
Qed.
