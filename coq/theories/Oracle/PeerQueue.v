(** Correspondence oracle for the session's peer queue (extra driver of C18: harness/peerq).
    The driver runs the REAL p2p.peerQueue through the accessor p2p/peerq_verif.go.
    Scores: the driver embeds float32 into Z order-preservingly (sign-magnitude bit pattern,
    -0 = +0, no NaN); the model only compares them. *)
From Coq Require Import List ZArith NArith Bool Arith Lia Permutation.
From GH Require Import Base.Prelude Model.PeerQueue Proofs.PeerQueueP.
Import ListNotations.

(** sequential phase: one caller; after every op all goroutines have settled (synctest.Wait) *)
Inductive sop :=
| SPush (p : N) (s : Z)    (* peerQueue.push of peer p whose score is s at that moment *)
| SPop                     (* peerQueue.waitPop with a context that times out *)
| SEnv (p : N) (s : Z).    (* updateStats / decreaseScore on a peer INSIDE the heap: score now s *)
Inductive sobs :=
| OPopped (p : N) (s : Z)
| OBlocked                 (* waitPop: timed out; push: did not return *)
| ODone
| OPanic.

Inductive casePQ :=
| PQSeq (init : list entry) (ops : list sop) (obs : list sobs)
        (final : list entry)          (* the heap's backing array at the end, in array order *)
        (tok pend : N)                (* tokens in the channel; pushers still blocked *)
| PQConc (init : list entry) (k : N) (logs : list (list N))   (* ids popped by each goroutine *)
         (dropped final : list N) (tok : N)
         (panicked lostwake pushblocked : bool).

Definition entry_eqb (a b : entry) : bool := (e_id a =? e_id b)%N && (sc a =? sc b)%Z.
Definition sobs_eqb (a b : sobs) : bool :=
  match a, b with
  | OPopped p s, OPopped p' s' => (p =? p')%N && (s =? s')%Z
  | OBlocked, OBlocked | ODone, ODone | OPanic, OPanic => true
  | _, _ => false
  end.

(** ** the model's run *)
Definition seq_step (q : queue) (o : sop) : queue * sobs :=
  match o with
  | SPush p s =>
    let '(q', r) := q_push q (p, s) in (q', match r with Done => ODone | _ => OBlocked end)
  | SPop =>
    let '(q', r) := q_waitpop q in
    (q', match r with Popped e => OPopped (e_id e) (sc e) | Blocks => OBlocked | _ => OPanic end)
  | SEnv p s => (q_env q p s, ODone)
  end.
Fixpoint seq_run (q : queue) (ops : list sop) : queue * list sobs :=
  match ops with
  | [] => (q, [])
  | o :: r => let '(q1, b) := seq_step q o in let '(q2, bs) := seq_run q1 r in (q2, b :: bs)
  end.

Definition agree_seq init ops obs final (tok pend : N) : bool :=
  let '(q, bs) := seq_run (q_new init) ops in
  list_eqb sobs_eqb bs obs && list_eqb entry_eqb (q_heap q) final
  && (N.of_nat (q_tok q) =? tok)%N && (N.of_nat (q_pend q) =? pend)%N.

(** ** the property, re-stated on the observations alone (no heap code): an unordered bag of
    the peers inside, counters, and whether a score changed inside the heap so far *)
Definition has_id (p : N) (l : list entry) : bool := existsb (fun e => (e_id e =? p)%N) l.
Definition remove_id (p : N) (l : list entry) : list entry := filter (fun e => negb (e_id e =? p)%N) l.
Fixpoint nodup_ids (l : list N) : bool :=
  match l with [] => true | a :: r => negb (existsb (N.eqb a) r) && nodup_ids r end.
Definition same_bag (a b : list entry) : bool :=
  (length a =? length b)%nat && nodup_ids (map e_id a) && forallb (fun e => existsb (entry_eqb e) b) a.
Definition same_ids (a b : list N) : bool :=
  (length a =? length b)%nat && nodup_ids a && forallb (fun x => existsb (N.eqb x) b) a.

Fixpoint spec_run (inside : list entry) (pend cap : nat) (clean : bool)
                  (ops : list sop) (obs : list sobs) : option (list entry * nat * bool) :=
  match ops, obs with
  | [], [] => Some (inside, pend, clean)
  | SPush p s :: ops', o :: obs' =>
    let tok := (length inside - pend)%nat in
    let blocks := negb (tok <? cap)%nat in
    if has_id p inside then None      (* the driver keeps the ids inside the queue distinct *)
    else match o with
         | ODone => if blocks then None else spec_run ((p, s) :: inside) pend cap clean ops' obs'
         | OBlocked => if blocks then spec_run ((p, s) :: inside) (S pend) cap clean ops' obs' else None
         | _ => None
         end
  | SPop :: ops', o :: obs' =>
    let empty := (length inside =? 0)%nat in      (* blocked iff no peer is queued *)
    match o with
    | OBlocked => if empty then spec_run inside pend cap clean ops' obs' else None
    | OPopped p s =>
      if empty then None
      else if existsb (entry_eqb (p, s)) inside
              && (negb clean || forallb (fun e => (sc e <=? s)%Z) inside)   (* a best peer *)
           then spec_run (remove_id p inside) (pend - 1) cap clean ops' obs'
           else None
    | _ => None
    end
  | SEnv p s :: ops', o :: obs' =>
    match o with
    | ODone => spec_run (set_score p s inside) pend cap (clean && negb (has_id p inside)) ops' obs'
    | _ => None
    end
  | _, _ => None
  end.

Definition ok_seq init ops obs final (tok pend : N) : bool :=
  nodup_ids (map e_id init) &&
  match spec_run init 0 (length init) true ops obs with
  | None => false
  | Some (inside, pd, clean) =>
    same_bag final inside && (N.of_nat (length inside - pd) =? tok)%N && (N.of_nat pd =? pend)%N
    && (negb clean || heap_okb final)
  end.

Definition ok_conc (init : list entry) (k : N) (logs : list (list N)) (dropped final : list N) (tok : N)
                   (panicked lostwake pushblocked : bool) : bool :=
  negb panicked && negb lostwake && negb pushblocked
  && nodup_ids (map e_id init)
  && same_ids (final ++ dropped) (map e_id init)                    (* no peer lost or duplicated *)
  && (N.of_nat (length final) =? tok)%N                             (* quiescent: tokens = queued peers *)
  && (N.of_nat (length logs) =? k)%N
  && forallb (forallb (fun x => existsb (N.eqb x) (map e_id init))) logs.

Definition chkPQ (c : casePQ) : bool * bool * N :=
  match c with
  | PQSeq init ops obs final tok pend => (agree_seq init ops obs final tok pend, ok_seq init ops obs final tok pend, 0%N)
  | PQConc init k logs dropped final tok pa lw pb => (true, ok_conc init k logs dropped final tok pa lw pb, 0%N)
  end.

(** sanity of the oracle on model-made observations *)
Example chkPQ_self :
  let init := [(0%N, 1%Z); (1%N, 1%Z); (2%N, 7%Z)] in
  let ops := [SPop; SPop; SPush 5%N 3%Z; SPush 2%N 0%Z; SPush 6%N 9%Z; SPop; SPop; SPop; SPop; SPop; SPop] in
  let '(q, bs) := seq_run (q_new init) ops in
  chkPQ (PQSeq init ops bs (q_heap q) (N.of_nat (q_tok q)) (N.of_nat (q_pend q))) = (true, true, 0%N)
  /\ bs = [OPopped 2 7%Z; OPopped 0 1%Z; ODone; ODone; OBlocked; OPopped 6 9%Z; OPopped 5 3%Z; OPopped 1 1%Z; OPopped 2 0%Z; OBlocked; OBlocked].
Proof. vm_compute. split; reflexivity. Qed.
