(** Correspondence oracle for C10: what the harness observes of one request
    served by the real ExchangeServer (reply frames or reset, and the call log
    of the recording proxy that stands in for the header.Store), the property
    re-stated as a decidable check of such an observation, and the lemma tying
    that check to the model. *)
From GH Require Import Base.Prelude Model.Server Proofs.ServerP.

Inductive oreply :=
| OReset                 (* stream reset, no frame before it *)
| ONotFound              (* exactly one frame: NOT_FOUND, empty body; then EOF *)
| OOk (ids : list N)     (* only OK frames with decodable bodies (hashes numbered); then EOF *)
| OPanic                 (* the process panicked *)
| OHang                  (* no end of stream within the server's timeouts *)
| OGarbage.              (* anything else: mixed statuses, reset after frames, undecodable body *)

(** the proxy's failure mode per kind of context-taking store call (HasAt returns a bare bool
    and is never faulted) *)
Record kmodes := KModes { m_head : fault; m_range : fault; m_get : fault }.
Definition kf_of (m : kmodes) : kfault :=
  fun k => match k with KHead => m_head m | KGetRange => m_range m | KGet => m_get m | _ => FNone end.

Record case10 := Case10 {
  k_st : store;                      (* the real store's content, read back by the harness *)
  k_fault : kmodes;                  (* fault modes of the proxy: Head, GetRange, Get *)
  k_req : req;                       (* the request as decoded from the bytes sent *)
  k_reply : oreply;
  k_ranges : list (N * N * N);       (* proxy log: range reads (from, to, headers returned) *)
  k_gets : list N;                   (* proxy log: Get(hash) calls *)
  k_disk : list (N * bool);          (* datastore under the real store: the keys (by hash or by height) read
                                        while the request was served, in order, each as (height of the
                                        header the key belongs to, or 0 for a key of no header this chain
                                        ever had; whether the read found something) *)
  k_o1 : N;                          (* proxy log: number of HasAt/Head/Tail/Height/Has calls *)
  k_other : N;                       (* proxy log: Append/DeleteRange/OnDelete calls *)
  k_hook : ckind;                    (* the store was changed (headers appended / pruned) right after the
                                        first call of this kind returned to the server ... *)
  k_st2 : option store;              (* ... and this is its content from then on (None: it never changed) *)
  k_timeout : N;                     (* the server's configured RequestTimeout, ms *)
  k_elapsed : N                      (* virtual time from opening the stream to the end of the reply, ms *)
}.

(** compact rendering of a hash-linked run, as the harness builds them: consecutive
    heights, times and hash numbers, each header's LastHeader = its predecessor's hash *)
Fixpoint mk_run (chain height : N) (n : nat) (t spacing : Z) (id prev : N) : list hdr :=
  match n with
  | O => []
  | S n' => Hdr false chain height t id prev true
            :: mk_run chain (height + 1) n' (t + spacing)%Z spacing (id + 1) id
  end.

Definition obs_reply (r : reply) : oreply :=
  match r with
  | Reset => OReset
  | NotFound => ONotFound
  | Ok l => OOk (map h_id l)
  | Panic => OPanic
  end.

Definition oreply_eqb (a b : oreply) : bool :=
  match a, b with
  | OReset, OReset | ONotFound, ONotFound | OPanic, OPanic | OHang, OHang | OGarbage, OGarbage => true
  | OOk l, OOk l' => list_eqb N.eqb l l'
  | _, _ => false
  end.

Definition triple_eqb (a b : N * N * N) : bool :=
  let '(x, y, z) := a in let '(x', y', z') := b in (x =? x') && (y =? y') && (z =? z').

Definition obs_ranges (cs : list call) : list (N * N * N) :=
  map (fun c => let '(f, t, _, n) := c in (f, t, n)) (range_calls cs).

Definition is_o1 (c : call) : bool := match c with CHasAt _ | CHead => true | _ => false end.

(** every height the model's store touches: GetRange's walk, and the header a Get(hash) finds *)
Definition touched (st : store) (cs : list call) : list N :=
  heights_read cs
  ++ map (fun id => match get_hash st id with Some h => h_height h | None => 0 end) (get_calls cs).

Definition as_found (l : list N) : list (N * bool) := map (fun n => (n, true)) l.

(** the instant of the reply.  Besides the proxy's blocking mode, a HEALTHY store can make
    GetRange wait: Store.getRangeByHeight reads its top height with GetByHeight, which
    subscribes to heightSub when that height is above the store's head and waits until the
    context ends (then context.DeadlineExceeded -> NOT_FOUND).  The server only asks for
    tops <= head, so this needs the head to be deleted between HasAt/Head and GetRange. *)
Definition range_waits (S : store) (c : call) : bool :=
  match c with CGetRange _ t _ _ => head_h S <? t - 1 | _ => false end.
Definition dur10 (kf : kfault) (S : store) (T : N) (c : call) : N :=
  match fault_of kf c with
  | FSlow => T
  | FErr => 0
  | FNone => if range_waits S c then T else 0
  end.
(** the content GetRange sees: after HasAt, or after HasAt and Head *)
Definition range_store (e : env) (cs : list call) : store :=
  match cs with [_; _] => e [KHasAt] | _ => e [KHasAt; KHead] end.

(** the model's observation for the inputs of a case *)
Definition model10 (st : store) (m : kmodes) (rq : req) (T : N) : case10 :=
  let '(r, cs) := handle_k (kf_of m) st rq in
  Case10 st m rq (obs_reply r) (obs_ranges cs) (get_calls cs) (as_found (touched st cs))
         (N.of_nat (length (filter is_o1 cs))) 0 KGet None T (finish T (dur10 (kf_of m) st T) 0 cs).

(** the store content each call sees when it changes once, after the first [hook] call *)
Definition ckind_eqb (a b : ckind) : bool :=
  match a, b with
  | KHasAt, KHasAt | KHead, KHead | KTail, KTail | KGetRange, KGetRange | KGet, KGet => true
  | _, _ => false
  end.
Definition env2 (hook : ckind) (st1 st2 : store) : env :=
  fun hist => if existsb (ckind_eqb hook) hist then st2 else st1.

Definition model10_d (st1 : store) (hook : ckind) (st2 : store) (m : kmodes) (rq : req) (T : N) : case10 :=
  let '(r, cs) := handle_dk (kf_of m) (env2 hook st1 st2) rq in
  Case10 st1 m rq (obs_reply r) (obs_ranges cs) (get_calls cs) (as_found (touched st1 cs))
         (N.of_nat (length (filter is_o1 cs))) 0 hook (Some st2) T (finish T (dur10 (kf_of m) (range_store (env2 hook st1 st2) cs) T) 0 cs).

Definition mem (x : N) (l : list N) : bool := existsb (N.eqb x) l.
Fixpoint dedup (l : list N) : list N :=
  match l with
  | [] => []
  | x :: r => if mem x r then dedup r else x :: dedup r
  end.

(** range reads are compared as the set of heights asked for: sorted by [from], touching or
    overlapping intervals merged (one GetRange(o, o+3) = three GetByHeight), returned counts added *)
Fixpoint insert_r (x : N * N * N) (l : list (N * N * N)) : list (N * N * N) :=
  match l with
  | [] => [x]
  | y :: r => if fst (fst x) <=? fst (fst y) then x :: l else y :: insert_r x r
  end.
Definition sort_r (l : list (N * N * N)) : list (N * N * N) := fold_right insert_r [] l.
Fixpoint merge_r (l : list (N * N * N)) : list (N * N * N) :=
  match l with
  | [] => []
  | (f, t, n) :: r =>
    match merge_r r with
    | (f', t', n') :: r' =>
      if (f <? t) && (f' <? t') && (f' <=? t) then (f, N.max t t', n + n') :: r'
      else (f, t, n) :: (f', t', n') :: r'
    | [] => [(f, t, n)]
    end
  end.
Definition norm_ranges (l : list (N * N * N)) : list (N * N * N) := merge_r (sort_r l).

Definition agree_with (m c : case10) : bool :=
  oreply_eqb (k_reply m) (k_reply c)
  && list_eqb triple_eqb (norm_ranges (k_ranges m)) (norm_ranges (k_ranges c))
  && list_eqb N.eqb (k_gets m) (k_gets c)
  (* caches and the write batch may spare the datastore a read, so: subset; a miss reads no header *)
  && forallb (fun d => negb (snd d) || mem (fst d) (map fst (k_disk m))) (k_disk c)
  (* the instant of the reply: at once, or exactly at the request deadline when a call blocked *)
  && (k_elapsed m =? k_elapsed c).

(** ** the property, as a check of an observation (no use of [handle]) *)

(** hash of the store's header at height n, between Tail and Head *)
Definition id_at (st : store) (n : N) : option N :=
  option_map h_id (find (fun h => h_height h =? n) (s_chain st)).
Definition stored (st : store) (id : N) : option hdr :=
  find (fun h => h_id h =? id) (all_hdrs st).
Definition nonempty (st : store) : bool := match s_chain st with [] => false | _ => true end.
Definition head_id (st : store) : option N := option_map h_id (head_of st).

Definition is_refusal (r : oreply) : bool :=
  match r with OReset | ONotFound => true | _ => false end.
Definition is_ok (r : oreply) : bool := match r with OOk _ => true | _ => false end.
Definition is_answer (r : oreply) : bool :=
  match r with OReset | ONotFound | OOk _ => true | _ => false end.

(** OK frames are exactly the store's headers at o, o+1, ...: at least one, at
    most [a], and fewer than [a] only when the last one is the store's head *)
Definition ok_shape (st : store) (o a : N) (r : oreply) : bool :=
  match r with
  | OReset | ONotFound => true
  | OOk ids =>
    let k := length ids in
    negb (Nat.eqb k 0) && (N.of_nat k <=? a)
    && list_eqb (option_eqb N.eqb) (map Some ids) (map (fun j => id_at st (o + N.of_nat j)) (seq 0 k))
    && ((N.of_nat k =? a) || (o + N.of_nat k - 1 =? head_h st))
  | _ => false
  end.

Fixpoint span_sum (l : list (N * N * N)) : N :=
  match l with [] => 0 | (f, t, _) :: r => (t - f) + span_sum r end.

(** reads stay inside [o, o+a) and their total is at most min(a, 64) *)
Definition ok_reads (st : store) (o a : N) (ranges : list (N * N * N)) (gets : list N) : bool :=
  forallb (fun c => let '(f, t, _) := c in (o <=? f) && (f <? t) && (t <=? o + a)) ranges
  && forallb (fun id => match stored st id with
                        | Some h => (o <=? h_height h) && (h_height h <? o + a)
                        | None => true end) gets
  && (span_sum ranges + N.of_nat (length gets) <=? N.min a max_req).

(** what reaches the datastore stays inside [o, o+a) too: at most min(a, 64) distinct heights *)
Definition nonzero (n : N) : bool := negb (n =? 0).
Definition ok_disk (o a : N) (reads : list (N * bool)) : bool :=
  let disk := map fst reads in
  forallb (fun n => (n =? 0) || ((o <=? n) && (n <? o + a))) disk
  && (N.of_nat (length (dedup (filter nonzero disk))) + N.of_nat (length (filter (N.eqb 0) disk))
      <=? N.min a max_req).

Definition no_reads (c : case10) : bool :=
  match k_ranges c, k_gets c, k_disk c with [], [], [] => true | _, _, _ => false end.

Definition ok10_s (c : case10) : bool :=
  let st := k_st c in
  let r := k_reply c in
  let m := k_fault c in
  (* no hang beyond the timeouts: the reply is complete by RequestTimeout *)
  is_answer r && (k_elapsed c <=? k_timeout c) && (k_other c =? 0) && (k_o1 c <=? 8)
  && match k_req c with
     | RInvalid => is_refusal r && no_reads c
     | RHash id _ =>
       let healthy := is_none (m_get m) in
       match k_ranges c with [] => true | _ => false end
       && forallb (N.eqb id) (k_gets c) && (N.of_nat (length (k_gets c)) <=? 1)
       && (N.of_nat (length (dedup (map fst (k_disk c)))) <=? 1)
       && (healthy || is_refusal r)
       && match stored st id with
          | Some _ => oreply_eqb r (OOk [id]) || (negb healthy && is_refusal r)
          | None => is_refusal r
          end
     | ROrigin o a =>
       if o =? 0 then
         let healthy := is_none (m_head m) in
         no_reads c
         && (healthy || is_refusal r)
         && match head_id st with
            | Some hid => oreply_eqb r (OOk [hid]) || ((negb healthy || (a =? 0)) && is_refusal r)
            | None => is_refusal r
            end
       else
         let healthy := is_none (m_head m) && is_none (m_range m) in
         ok_shape st o a r
         (* no range answer when GetRange fails or blocks *)
         && (is_none (m_range m) || is_refusal r)
         && ok_reads st o a (k_ranges c) (k_gets c)
         && ok_disk o a (k_disk c)
         (* a well-formed request inside Tail..Head is served *)
         && (negb (healthy && nonempty st && (1 <=? a) && (a <=? max_req) && (o + a <? two64)
                   && (tail_h st <=? o) && (o <=? head_h st))
             || is_ok r)
     end.

(** ** the same check when the store changed during the request: "the store" is either content *)

Definition id_at_all (st : store) (n : N) : option N := option_map h_id (get_height st n).
Definition ids_match (st : store) (o : N) (ids : list N) : bool :=
  list_eqb (option_eqb N.eqb) (map Some ids) (map (fun j => id_at_all st (o + N.of_nat j)) (seq 0 (length ids))).

(** OK frames: the headers at o, o+1, ... of one of the two contents; at most [a];
    fewer only when ending at the head of one of them *)
Definition ok_shape_d (st1 st2 : store) (o a : N) (r : oreply) : bool :=
  match r with
  | OReset | ONotFound => true
  | OOk ids =>
    let k := length ids in
    negb (Nat.eqb k 0) && (N.of_nat k <=? a)
    && (ids_match st1 o ids || ids_match st2 o ids)
    && ((N.of_nat k =? a) || (o + N.of_nat k - 1 =? head_h st1) || (o + N.of_nat k - 1 =? head_h st2))
  | _ => false
  end.

Definition head_is (r : oreply) (st : store) : bool :=
  match head_id st with Some hid => oreply_eqb r (OOk [hid]) | None => false end.
Definition has_id (st : store) (id : N) : bool := match stored st id with Some _ => true | None => false end.

Definition ok10_d (c : case10) (st2 : store) : bool :=
  let st1 := k_st c in
  let r := k_reply c in
  let m := k_fault c in
  is_answer r && (k_elapsed c <=? k_timeout c) && (k_other c =? 0) && (k_o1 c <=? 8)
  && match k_req c with
     | RInvalid => is_refusal r && no_reads c
     | RHash id _ =>
       let healthy := is_none (m_get m) in
       match k_ranges c with [] => true | _ => false end
       && forallb (N.eqb id) (k_gets c) && (N.of_nat (length (k_gets c)) <=? 1)
       && (N.of_nat (length (dedup (map fst (k_disk c)))) <=? 1)
       && (healthy || is_refusal r)
       && ((oreply_eqb r (OOk [id]) && (has_id st1 id || has_id st2 id))
           || (is_refusal r && (negb healthy || negb (has_id st1 id) || negb (has_id st2 id))))
     | ROrigin o a =>
       if o =? 0 then
         let healthy := is_none (m_head m) in
         no_reads c
         && (healthy || is_refusal r)
         && (head_is r st1 || head_is r st2
             || (is_refusal r && (negb healthy || (a =? 0) || negb (nonempty st1) || negb (nonempty st2))))
       else
         ok_shape_d st1 st2 o a r
         && (is_none (m_range m) || is_refusal r)
         && ok_reads st1 o a (k_ranges c) (k_gets c) && ok_reads st2 o a (k_ranges c) (k_gets c)
         && ok_disk o a (k_disk c)
     end.

Definition agree10 (c : case10) : bool :=
  match k_st2 c with
  | None => wf_storeb (k_st c) && agree_with (model10 (k_st c) (k_fault c) (k_req c) (k_timeout c)) c
  | Some st2 =>
    wf_storeb (k_st c) && wf_storeb st2
    && agree_with (model10_d (k_st c) (k_hook c) st2 (k_fault c) (k_req c) (k_timeout c)) c
  end.

Definition ok10 (c : case10) : bool :=
  match k_st2 c with None => ok10_s c | Some st2 => ok10_d c st2 end.

Definition chk10 (c : case10) : bool * bool * N := (agree10 c, ok10 c, 0).

(** ** the tie: the model's own observation always satisfies the oracle *)
From Coq Require Import ZifyBool ZifyNat ZifyN.

Definition req_bounded (rq : req) : Prop :=
  match rq with
  | ROrigin o a => o < two64 /\ a < two64
  | _ => True
  end.

Lemma nodupb_app_l (l1 l2 : list N) : nodupb (l1 ++ l2) = true -> nodupb l1 = true.
Proof.
  induction l1 as [|x r IH]; cbn; intro H; [reflexivity|].
  apply andb_true_iff in H as [Hx Hr]. rewrite (IH Hr), andb_true_r.
  rewrite existsb_app in Hx. apply negb_true_iff in Hx. apply orb_false_iff in Hx as [Hx _].
  rewrite Hx. reflexivity.
Qed.

Lemma id_at_chain st h : wf_store st -> In h (s_chain st) -> id_at st (h_height h) = Some (h_id h).
Proof.
  intros wf Hin. destruct (wf_parts st wf) as (_ & _ & _ & _ & Hh).
  unfold all_hdrs in Hh. rewrite map_app in Hh. apply nodupb_app_l in Hh.
  unfold id_at. rewrite (nodupb_find h_height _ h Hh Hin). reflexivity.
Qed.

Lemma list_eqb_map_seq (F : nat -> option N) : forall (l : list hdr) s,
  (forall j, (j < length l)%nat -> exists h, nth_error l j = Some h /\ F (s + j)%nat = Some (h_id h)) ->
  list_eqb (option_eqb N.eqb) (map Some (map h_id l)) (map F (seq s (length l))) = true.
Proof.
  induction l as [|x r IH]; intros s H; [reflexivity|].
  cbn [length seq map list_eqb].
  destruct (H 0%nat) as (h & Hn & HF); [cbn; lia|]. cbn in Hn. injection Hn as <-.
  rewrite Nat.add_0_r in HF. rewrite HF. cbn [option_eqb]. rewrite N.eqb_refl. cbn [andb].
  apply IH. intros j Hj. destruct (H (S j)) as (h & Hn & HF'); [cbn; lia|].
  exists h. split; [exact Hn|]. replace (S s + j)%nat with (s + S j)%nat by lia. exact HF'.
Qed.

Lemma shape_ok st o a r : wf_store st -> range_answer_ok st o a r -> ok_shape st o a (obs_reply r) = true.
Proof.
  intros wf [->|[->|(l & -> & H1 & Ha & HT & HH & Hnth & Hlast)]]; [reflexivity..|].
  cbn [obs_reply ok_shape]. rewrite map_length.
  rewrite (list_eqb_map_seq (fun j => id_at st (o + N.of_nat j)) l 0).
  - destruct (N.lt_ge_cases (N.of_nat (length l)) a) as [Hlt|Hge].
    + specialize (Hlast Hlt). lia.
    + lia.
  - intros j Hj. destruct (Hnth j Hj) as (h & Hn & _ & Hht & Hin).
    exists h. split; [exact Hn|]. cbn [Nat.add]. rewrite <- Hht. apply id_at_chain; assumption.
Qed.

Lemma reads_ok_b st o a (cs : list (N * N * list N * N)) :
  (length cs <= 1)%nat -> Forall (range_args_ok o a) cs ->
  ok_reads st o a (map (fun c => let '(f, t, _, n) := c in (f, t, n)) cs) [] = true.
Proof.
  intros Hlen Hall. unfold ok_reads. cbn [forallb length N.of_nat andb].
  destruct cs as [|[[[f t] rd] n] [|c cs]]; [cbn; lia| |cbn in Hlen; lia].
  inversion Hall as [|? ? Hc _]; subst. cbn in Hc. cbn. lia.
Qed.

Lemma obs_is_answer r : r <> Panic -> is_answer (obs_reply r) = true.
Proof. destruct r; cbn; congruence. Qed.

Lemma dedup_length l : (length (dedup l) <= length l)%nat.
Proof. induction l as [|x r IH]; cbn; [lia|]. destruct (mem x r); cbn; lia. Qed.

Lemma filter_length_le {A} (p : A -> bool) l : (length (filter p l) <= length l)%nat.
Proof. induction l as [|x r IH]; cbn; [lia|]. destruct (p x); cbn; lia. Qed.

Lemma filter_none {A} (p : A -> bool) l : (forall x, In x l -> p x = false) -> filter p l = [].
Proof.
  induction l as [|x r IH]; cbn; intro H; [reflexivity|].
  rewrite (H x) by auto. apply IH. intros y Hy. apply H. auto.
Qed.

Lemma as_found_fst l : map fst (as_found l) = l.
Proof. unfold as_found. rewrite map_map. cbn. apply map_id. Qed.

Lemma disk_ok_b o a rd : 1 <= o -> reads_ok o a rd -> ok_disk o a (as_found (rd ++ [])) = true.
Proof.
  intros Ho (Hin & Hlen & _). rewrite app_nil_r. unfold ok_disk. rewrite as_found_fst.
  apply andb_true_iff. split.
  - apply forallb_forall. intros n Hn. specialize (Hin n Hn). lia.
  - rewrite (filter_none (N.eqb 0) rd).
    + pose proof (dedup_length (filter nonzero rd)). pose proof (filter_length_le nonzero rd). cbn [length]. lia.
    + intros n Hn. specialize (Hin n Hn). lia.
Qed.

Lemma handle_range_dk_log kf e from to :
  get_calls (snd (handle_range_dk kf e from to)) = []
  /\ (length (filter is_o1 (snd (handle_range_dk kf e from to))) <= 2)%nat.
Proof.
  unfold handle_range_dk.
  destruct (to <=? from); [cbn; split; [reflexivity|lia]|].
  destruct (from =? 0); [cbn; split; [reflexivity|lia]|].
  destruct (max_req <? sub64 to from); [cbn; split; [reflexivity|lia]|].
  destruct (has_at (e []) (sub64 to 1)).
  - destruct (serve_range_calls (kf KGetRange) (e [KHasAt]) from to [CHasAt (sub64 to 1)]) as (rd & n & ->). cbn. split; [reflexivity|lia].
  - destruct (call_head (kf KHead) (e [KHasAt])) as [hd|x|]; [|cbn; split; [reflexivity|lia]..].
    destruct (h_height hd <? from); [cbn; split; [reflexivity|lia]|].
    destruct (sub64 to 1 <=? h_height hd); [cbn; split; [reflexivity|lia]|].
    destruct (serve_range_calls (kf KGetRange) (e [KHasAt; KHead]) from (wrap64 (h_height hd + 1)) [CHasAt (sub64 to 1); CHead]) as (rd & n & ->).
    cbn. split; [reflexivity|lia].
Qed.

Lemma handle_range_k_log kf st from to :
  get_calls (snd (handle_range_k kf st from to)) = []
  /\ (length (filter is_o1 (snd (handle_range_k kf st from to))) <= 2)%nat.
Proof. exact (handle_range_dk_log kf (fun _ => st) from to). Qed.

Lemma handle_range_k_ext kf kf' st from to :
  kf KHead = kf' KHead -> kf KGetRange = kf' KGetRange ->
  handle_range_k kf st from to = handle_range_k kf' st from to.
Proof. intros H1 H2. unfold handle_range_k. rewrite H1, H2. reflexivity. Qed.

Lemma finish_leb T d cs : (finish T d 0 cs <=? T) = true.
Proof. apply N.leb_le. apply finish_le. apply N.le_0_l. Qed.

Lemma refusal_obs r : r = Reset \/ r = NotFound -> is_refusal (obs_reply r) = true.
Proof. intros [-> | ->]; reflexivity. Qed.

Lemma range_refused_b m e o a : 1 <= o ->
  is_none (m_range m) || is_refusal (obs_reply (fst (handle_dk (kf_of m) e (ROrigin o a)))) = true.
Proof.
  intro Ho. destruct (m_range m) eqn:E; [reflexivity|..]; cbn [is_none orb]; apply refusal_obs;
    destruct (failure_refused_by_kind_dk (kf_of m) e) as (_ & _ & H);
    (destruct (H o a) as [->| ->]; [cbn; rewrite E; discriminate | exact Ho | auto | auto]).
Qed.

Theorem model10_ok : forall st m rq T, wf_store st -> req_bounded rq -> ok10 (model10 st m rq T) = true.
Proof.
  intros st m rq T wf Hb. unfold ok10.
  replace (k_st2 (model10 st m rq T)) with (@None store) by (unfold model10; destruct (handle_k (kf_of m) st rq); reflexivity).
  unfold model10.
  pose proof (handle_k_total (kf_of m) st rq) as Htot.
  destruct rq as [o a|id a|].
  - destruct Hb as [Ho Ha].
    pose proof (origin_bounded_calls_k (kf_of m) st o a Ho Ha) as [Hlen Hargs].
    pose proof (origin_bounded_reads_k (kf_of m) st o a wf Ho Ha) as Hreads.
    pose proof (fun H => range_refused_b m (fun _ => st) o a H) as Hrefused.
    rewrite static_is_instance_k in Hrefused.
    rewrite handle_k_fst_snd in *. cbn [fst snd] in *.
    destruct (handle_range_k_log (kf_of m) st o (wrap64 (o + a))) as [Hgets Ho1].
    set (hr := handle_range_k (kf_of m) st o (wrap64 (o + a))) in *.
    unfold ok10_s, touched. cbn [k_st k_reply k_fault k_req k_other k_o1 k_ranges k_gets k_disk k_timeout k_elapsed].
    rewrite (obs_is_answer _ Htot). rewrite finish_leb. rewrite Hgets. cbn [andb N.eqb map].
    replace (N.of_nat (length (filter is_o1 (snd hr))) <=? 8) with true by lia. cbn [andb].
    destruct (N.eqb_spec o 0) as [->|Ho0].
    + (* head request *)
      subst hr. unfold no_reads, obs_ranges, as_found. cbn [k_ranges k_gets k_disk].
      unfold handle_range_k. rewrite N.add_0_l, wrap64_small by exact Ha.
      destruct (N.leb_spec a 0) as [Hz|Hpos].
      * assert (a = 0) as -> by lia. cbn. rewrite orb_true_r. destruct (head_id st); [rewrite orb_true_r|]; reflexivity.
      * cbn [N.eqb]. unfold handle_head, call_head, head_id. cbn [snd range_calls map fst heights_read concat app kf_of].
        destruct (m_head m); cbn [fst status fault_err obs_reply is_none orb andb negb is_refusal].
        -- destruct (head_of st) as [h|]; cbn; [rewrite N.eqb_refl|]; reflexivity.
        -- destruct (head_of st); reflexivity.
        -- destruct (head_of st); reflexivity.
    + pose proof (origin_reply_shape_k (kf_of m) st o a wf ltac:(lia) Ho Ha) as Hshape.
      rewrite handle_k_fst_snd in Hshape. cbn [fst] in Hshape. fold hr in Hshape.
      rewrite (shape_ok st o a _ wf Hshape). cbn [andb].
      rewrite Hrefused by lia. cbn [andb].
      unfold obs_ranges. rewrite (reads_ok_b st o a _ Hlen Hargs). cbn [andb].
      rewrite (disk_ok_b o a _ ltac:(lia) Hreads). cbn [andb].
      destruct (m_head m) eqn:EH; cbn [is_none negb andb orb]; try reflexivity.
      destruct (m_range m) eqn:EG; cbn [is_none negb andb orb]; try reflexivity.
      pose proof (origin_reply_exact st o a wf ltac:(lia) Ho Ha) as Hex.
      rewrite handle_fst_snd in Hex. cbn [fst] in Hex.
      replace (handle_range FNone st o (wrap64 (o + a))) with hr in Hex
        by (subst hr; apply handle_range_k_ext; cbn; assumption).
      rewrite Hex.
      unfold range_reply, nonempty, is_empty.
      destruct (s_chain st) eqn:Ech; [reflexivity|]. cbn [andb].
      destruct (N.leb_spec 1 a), (N.leb_spec a max_req), (N.ltb_spec (o + a) two64),
        (N.leb_spec (tail_h st) o), (N.leb_spec o (head_h st)); cbn [andb negb orb]; try reflexivity.
      destruct (N.eqb_spec a 0); [lia|]. destruct (N.leb_spec two64 (o + a)); [lia|].
      destruct (N.ltb_spec max_req a); [lia|]. cbn [orb].
      destruct (N.ltb_spec o (tail_h st)); [lia|]. destruct (N.ltb_spec (head_h st) o); [lia|]. reflexivity.
  - cbn [handle_k handle_hash].
    unfold ok10_s, touched, as_found. cbn [k_st k_reply k_fault k_req k_other k_o1 k_ranges k_gets k_disk obs_ranges range_calls map get_calls
                               filter is_o1 length heights_read concat app dedup mem existsb k_timeout k_elapsed].
    rewrite finish_leb.
    cbn [forallb andb N.of_nat N.eqb N.leb kf_of].
    unfold stored, get_hash.
    destruct (find (fun h => h_id h =? id) (all_hdrs st)) as [h|] eqn:E.
    + apply find_some in E as [_ E]. destruct (m_get m); cbn; rewrite ?E, ?N.eqb_refl; reflexivity.
    + destruct (m_get m); cbn; rewrite ?N.eqb_refl; reflexivity.
  - destruct T; reflexivity.
Qed.

(** ** the tie, for a store that changes during the request *)

Lemma env2_cases hook st1 st2 hist : env2 hook st1 st2 hist = st1 \/ env2 hook st1 st2 hist = st2.
Proof. unfold env2. destruct (existsb (ckind_eqb hook) hist); auto. Qed.

Lemma env2_wf hook st1 st2 : wf_store st1 -> wf_store st2 -> forall hist, wf_store (env2 hook st1 st2 hist).
Proof. intros H1 H2 hist. destruct (env2_cases hook st1 st2 hist) as [-> | ->]; assumption. Qed.

Lemma ids_match_ok S o l :
  (forall j, (j < length l)%nat ->
     exists h, nth_error l j = Some h /\ get_height S (o + N.of_nat j) = Some h
               /\ h_height h = o + N.of_nat j /\ In h (all_hdrs S)) ->
  ids_match S o (map h_id l) = true.
Proof.
  intro H. unfold ids_match. rewrite map_length.
  apply (list_eqb_map_seq (fun j => id_at_all S (o + N.of_nat j)) l 0).
  intros j Hj. destruct (H j Hj) as (h & Hn & Hg & _). exists h. split; [exact Hn|].
  cbn [Nat.add]. unfold id_at_all. rewrite Hg. reflexivity.
Qed.

Lemma shape_ok_d hook st1 st2 o a r :
  range_answer_ok_d (env2 hook st1 st2) o a r -> ok_shape_d st1 st2 o a (obs_reply r) = true.
Proof.
  intros [->|[->|(l & S & -> & HS & H1 & Ha & Hnth & Hlast)]]; [reflexivity..|].
  cbn [obs_reply ok_shape_d]. rewrite map_length.
  assert (ids_match st1 o (map h_id l) || ids_match st2 o (map h_id l) = true) as ->.
  { pose proof (ids_match_ok S o l Hnth) as Hm.
    destruct HS as [-> | ->].
    - destruct (env2_cases hook st1 st2 [KHasAt]) as [E|E]; rewrite E in Hm; rewrite Hm; [reflexivity | apply orb_true_r].
    - destruct (env2_cases hook st1 st2 [KHasAt; KHead]) as [E|E]; rewrite E in Hm; rewrite Hm; [reflexivity | apply orb_true_r]. }
  destruct (N.lt_ge_cases (N.of_nat (length l)) a) as [Hlt|Hge]; [|lia].
  destruct (Hlast Hlt) as (hd & Hhd & Ehd).
  assert (h_height hd = head_h (env2 hook st1 st2 [KHasAt])) as Eh by (unfold head_h; rewrite Hhd; reflexivity).
  destruct (env2_cases hook st1 st2 [KHasAt]) as [E|E]; rewrite E in Eh; lia.
Qed.

Theorem model10_d_ok : forall st1 hook st2 m rq T, wf_store st1 -> wf_store st2 -> req_bounded rq ->
  ok10 (model10_d st1 hook st2 m rq T) = true.
Proof.
  intros st1 hook st2 m rq T wf1 wf2 Hb. unfold ok10.
  replace (k_st2 (model10_d st1 hook st2 m rq T)) with (Some st2)
    by (unfold model10_d; destruct (handle_dk (kf_of m) (env2 hook st1 st2) rq); reflexivity).
  unfold model10_d. set (e := env2 hook st1 st2).
  pose proof (handle_d_totalk (kf_of m) e rq) as Htot.
  pose proof (env2_wf hook st1 st2 wf1 wf2) as wfe. fold e in wfe.
  destruct rq as [o a|id a|].
  - destruct Hb as [Ho Ha].
    pose proof (origin_bounded_calls_dk (kf_of m) e o a Ho Ha) as [Hlen Hargs].
    pose proof (origin_bounded_reads_dk (kf_of m) e o a wfe Ho Ha) as Hreads.
    pose proof (fun H => range_refused_b m e o a H) as Hrefused.
    rewrite handle_dk_fst_snd in *. cbn [fst snd] in *.
    destruct (handle_range_dk_log (kf_of m) e o (wrap64 (o + a))) as [Hgets Ho1].
    set (hr := handle_range_dk (kf_of m) e o (wrap64 (o + a))) in *.
    unfold ok10_d, touched. cbn [k_st k_reply k_fault k_req k_other k_o1 k_ranges k_gets k_disk k_timeout k_elapsed].
    rewrite (obs_is_answer _ Htot). rewrite finish_leb. rewrite Hgets. cbn [andb N.eqb map].
    replace (N.of_nat (length (filter is_o1 (snd hr))) <=? 8) with true by lia. cbn [andb].
    destruct (N.eqb_spec o 0) as [->|Ho0].
    + subst hr. unfold no_reads, obs_ranges, as_found. cbn [k_ranges k_gets k_disk].
      unfold handle_range_dk. rewrite N.add_0_l, wrap64_small by exact Ha.
      destruct (N.leb_spec a 0) as [Hz|Hpos].
      * assert (a = 0) as -> by lia. cbn. rewrite !orb_true_r. reflexivity.
      * cbn [N.eqb]. replace (e []) with st1 by reflexivity.
        unfold handle_head, call_head, head_is, head_id. cbn [snd range_calls map fst heights_read concat app kf_of].
        destruct (m_head m); cbn [fst status fault_err obs_reply is_none orb andb negb is_refusal].
        -- unfold nonempty, head_of. destruct (s_chain st1) as [|t r]; cbn; [rewrite !orb_true_r; reflexivity|].
           rewrite N.eqb_refl. reflexivity.
        -- cbn. rewrite !orb_true_r. reflexivity.
        -- cbn. rewrite !orb_true_r. reflexivity.
    + pose proof (origin_reply_shape_dk (kf_of m) e o a wfe ltac:(lia) Ho Ha) as Hshape.
      rewrite handle_dk_fst_snd in Hshape. cbn [fst] in Hshape. fold hr in Hshape.
      rewrite (shape_ok_d hook st1 st2 o a _ Hshape). cbn [andb].
      rewrite Hrefused by lia. cbn [andb].
      unfold obs_ranges. rewrite (reads_ok_b st1 o a _ Hlen Hargs), (reads_ok_b st2 o a _ Hlen Hargs). cbn [andb].
      apply (disk_ok_b o a _ ltac:(lia) Hreads).
  - cbn [handle_dk handle_hash]. replace (e []) with st1 by reflexivity.
    unfold ok10_d, touched, as_found. cbn [k_st k_reply k_fault k_req k_other k_o1 k_ranges k_gets k_disk obs_ranges range_calls map get_calls
                                 filter is_o1 length heights_read concat app dedup mem existsb k_timeout k_elapsed].
    rewrite finish_leb.
    cbn [forallb andb N.of_nat N.eqb N.leb kf_of].
    unfold has_id, stored, get_hash.
    destruct (find (fun h => h_id h =? id) (all_hdrs st1)) as [h|] eqn:E.
    + apply find_some in E as [_ E]. destruct (m_get m); cbn; rewrite ?E, ?N.eqb_refl; cbn; rewrite ?orb_true_r; reflexivity.
    + destruct (m_get m); cbn; rewrite ?N.eqb_refl; cbn; rewrite ?orb_true_r; reflexivity.
  - destruct T; reflexivity.
Qed.
