(** Correspondence oracle for C13: the case record emitted by harness/c13, the
    model's projected observation, and the property re-stated as a decidable
    check on the implementation's observation. *)
From GH Require Import Base.Prelude Model.Request Proofs.RequestP.

(** In cases the wire body is represented by what the header type's codec
    makes of it (the driver runs vhdr's UnmarshalBinary on the body bytes). *)
Definition dec0 (d : dres) : dres := d.

(** chain numbers are 16*class + variant; two chain ids are equal under case
    folding iff they are in the same class; 0 is the empty string *)
Definition fold16 (c : N) : N := c / 16.

Inductive op := OpGet (hash : N) | OpByHeight (height : N).

(** errors as far as the driver can tell them apart with errors.Is *)
Inductive eobs := XNotFound | XDecode | XInvalid | XCtx | XOther.

Inductive obs :=
| ORet (h : hdr)      (* (h, nil) with h non-nil *)
| OErr (e : eobs)     (* (nil, err) *)
| OPanic              (* the call panicked *)
| OBlocks             (* the call did not return although every planned event was delivered *)
| OZeroNil            (* (nil, nil) *)
| ORetErr.            (* (h, err) with both non-nil *)

Record case13 := Case13 {
  k_op : op;
  k_want : N;                        (* configured chain id (0 = none) *)
  k_n : nat;                         (* number of trusted peers *)
  k_evs : list (event dres);         (* arrivals / context end / stop, in order *)
  k_reqs : list req;                 (* the distinct requests the scripted peers received *)
  k_obs : obs }.

Definition proj_err (e : err) : eobs :=
  match e with
  | ENotFound => XNotFound
  | EDecode => XDecode
  | EInvalid => XInvalid
  | ECtx | EStopped => XCtx
  | _ => XOther
  end.

Definition proj (r : res hdr) : obs :=
  match r with
  | Ok h => ORet h
  | Err e => OErr (proj_err e)
  | Panic => OPanic
  | Blocks => OBlocks
  end.

Definition run_op (o : op) (want : N) (n : nat) (evs : list (event dres)) : res hdr :=
  match o with
  | OpGet hash => get dres dec0 fold16 want n evs hash
  | OpByHeight ht => get_by_height dres dec0 fold16 want n evs ht
  end.

Definition req_of (o : op) : req :=
  match o with OpGet hash => get_req hash | OpByHeight ht => get_by_height_req ht end.

Definition model13 (c : case13) : obs := proj (run_op (k_op c) (k_want c) (k_n c) (k_evs c)).

Definition eobs_eqb (a b : eobs) : bool :=
  match a, b with
  | XNotFound, XNotFound | XDecode, XDecode | XInvalid, XInvalid | XCtx, XCtx | XOther, XOther => true
  | _, _ => false
  end.

Definition obs_eqb (a b : obs) : bool :=
  match a, b with
  | ORet h, ORet h' => hdr_eqb h h'
  | OErr e, OErr e' => eobs_eqb e e'
  | OPanic, OPanic | OBlocks, OBlocks | OZeroNil, OZeroNil | ORetErr, ORetErr => true
  | _, _ => false
  end.

Definition req_eqb (a b : req) : bool :=
  match a, b with
  | ReqHash h x, ReqHash h' x' => (h =? h') && (x =? x')
  | ReqOrigin h x, ReqOrigin h' x' => (h =? h') && (x =? x')
  | _, _ => false
  end.

(** ** The property, re-stated on observations (no use of the model's functions) *)

Definition chain_b (want have : N) : bool := (want =? 0) || (want / 16 =? have / 16).

(** does this peer answer a one-header request validly, and with which header:
    its first frame has status OK, its body decodes, the header passes Validate
    and carries the configured chain id *)
Definition valid_answer_b (want : N) (s : stream dres) : option hdr :=
  match s with
  | SData (Frame st (DHdr h) :: _) _ =>
    if (st =? 1)%Z && h_ok h && chain_b want (h_chain h) then Some h else None
  | _ => None
  end.

Inductive fv := FVSome (h : hdr) | FVAllBad | FVEnded | FVPending.

(** the first valid answer among the first [k] arrivals, unless the caller's
    context ends / the exchange is stopped first *)
Fixpoint first_valid_b (want : N) (k : nat) (evs : list (event dres)) : fv :=
  match k with
  | O => FVAllBad
  | S k' =>
    match evs with
    | [] => FVPending
    | Arrive s :: t =>
      match valid_answer_b want s with
      | Some h => FVSome h
      | None => first_valid_b want k' t
      end
    | _ => FVEnded
    end
  end.

Definition binds (o : op) (h : hdr) : bool :=
  match o with OpGet hash => h_id h =? hash | OpByHeight ht => negb (ht =? 0) end.

Definition height_zero (o : op) : bool :=
  match o with OpByHeight ht => ht =? 0 | _ => false end.

Definition ok13 (c : case13) : bool :=
  let fvr := first_valid_b (k_want c) (k_n c) (k_evs c) in
  match k_obs c with
  | ORet h =>
    (* a non-zero header that decoded, validated, has the configured chain id, is the
       first valid answer in arrival order, and (Get) has the requested hash *)
    negb (h_nil h) && h_ok h && chain_b (k_want c) (h_chain h) && binds (k_op c) h
    && match fvr with FVSome h' => hdr_eqb h h' | _ => false end
  | OErr _ =>
    (* an error is only right when no header can be returned: height 0, nobody
       answered validly before the context ended, or (Get) the first valid answer
       has another hash *)
    height_zero (k_op c)
    || match fvr with
       | FVSome h' => negb (binds (k_op c) h')
       | _ => true
       end
  | OBlocks => match fvr with FVPending => negb (height_zero (k_op c)) | _ => false end
  | OPanic | OZeroNil | ORetErr => false
  end.

Definition chk13 (c : case13) : bool * bool * N :=
  (obs_eqb (model13 c) (k_obs c) && forallb (req_eqb (req_of (k_op c))) (k_reqs c), ok13 c, 0).

(** ** The oracle is tied to the model: on well-formed inputs (decoded headers
    are not IsZero; scripted decode panics are allowed) the model's own
    observation always satisfies [ok13]. Hence a case on which the implementation agrees with the
    model satisfies the property check, and an [ok13] failure always comes
    with a disagreement. *)

Definition wf_body (d : dres) : bool :=
  match d with DPanic => true | DValPanic => true | DErr => true | DHdr h => negb (h_nil h) end.

Definition wf_event (ev : event dres) : bool :=
  match ev with
  | Arrive (SData fs _) => forallb (fun f => wf_body (f_body f)) fs
  | _ => true
  end.

Definition wf_evs (evs : list (event dres)) : bool := forallb wf_event evs.

Lemma hdr_eqb_refl h : hdr_eqb h h = true.
Proof.
  unfold hdr_eqb. rewrite !N.eqb_refl, !Z.eqb_refl, !Bool.eqb_reflx. reflexivity.
Qed.

Lemma request_valid_answer want s : wf_event (Arrive s) = true ->
  match valid_answer_b want s with
  | Some h => request dres dec0 fold16 want 1 s = Ok [h] /\ h_nil h = false /\ h_ok h = true
              /\ chain_b want (h_chain h) = true
  | None => exists e, request dres dec0 fold16 want 1 s = Err e
  end.
Proof.
  intros Hwf. destruct s as [|fs e]; cbn; [eauto|].
  destruct fs as [|[st b] r]; cbn.
  { destruct e; eauto. }
  cbn in Hwf. apply andb_true_iff in Hwf. destruct Hwf as [Hb _].
  unfold status_err, status_OK, status_NOT_FOUND, dec0.
  destruct b as [| |h|]; cbn in Hb; try discriminate.
  - destruct (st =? 1)%Z; [eauto|]. destruct (st =? 2)%Z; eauto.
  - destruct (st =? 1)%Z; cbn; [eauto|]. destruct (st =? 2)%Z; eauto.
  - destruct (st =? 1)%Z; cbn.
    2:{ destruct (st =? 2)%Z; eauto. }
    destruct (h_ok h) eqn:Ev; cbn; [|eauto].
    unfold validate_chain, chain_b, fold16.
    destruct ((want =? 0) || (want / 16 =? h_chain h / 16)) eqn:Ec; cbn; [|eauto].
    repeat split; auto. now apply negb_true_iff in Hb.
  - destruct (st =? 1)%Z; cbn; [eauto|]. destruct (st =? 2)%Z; eauto.
Qed.

Lemma collect_first_valid_b want : forall k evs last, wf_evs evs = true ->
  match first_valid_b want k evs with
  | FVSome h => collect dres dec0 fold16 want 1 k evs last = Ok [h] /\ h_nil h = false /\ h_ok h = true
                /\ chain_b want (h_chain h) = true
  | FVAllBad => (k <> O \/ last <> None) -> exists e, collect dres dec0 fold16 want 1 k evs last = Err e
  | FVEnded => exists e, collect dres dec0 fold16 want 1 k evs last = Err e
  | FVPending => collect dres dec0 fold16 want 1 k evs last = Blocks
  end.
Proof.
  induction k as [|k IH]; intros evs last Hwf; cbn.
  - intros [H|H]; [congruence|]. destruct last; [eauto|congruence].
  - destruct evs as [|ev t]; cbn; [reflexivity|].
    cbn in Hwf. apply andb_true_iff in Hwf. destruct Hwf as [Hev Ht].
    destruct ev as [s| |]; [|eauto|eauto].
    pose proof (request_valid_answer want s Hev) as Hr.
    destruct (valid_answer_b want s) as [h|].
    + destruct Hr as [Hr Hrest]. rewrite Hr. auto.
    + destruct Hr as [e Hr]. rewrite Hr.
      specialize (IH t (Some e) Ht).
      destruct (first_valid_b want k t); auto.
      intros _. apply IH. right. discriminate.
Qed.

Theorem model13_ok : forall o want n evs reqs, wf_evs evs = true ->
  ok13 (Case13 o want n evs reqs (model13 (Case13 o want n evs reqs OPanic))) = true.
Proof.
  intros o want n evs reqs Hwf. unfold ok13, model13. cbn [k_op k_want k_n k_evs k_obs].
  pose proof (collect_first_valid_b want n evs None Hwf) as Hc.
  assert (Hp : match first_valid_b want n evs with
               | FVSome h => perform dres dec0 fold16 want 1 n evs = Ok [h] /\ h_nil h = false /\ h_ok h = true
                             /\ chain_b want (h_chain h) = true
               | FVAllBad | FVEnded => exists e, perform dres dec0 fold16 want 1 n evs = Err e
               | FVPending => perform dres dec0 fold16 want 1 n evs = Blocks
               end).
  { unfold perform. destruct n as [|n]; [cbn; eauto|].
    destruct (first_valid_b want (S n) evs); auto; try (apply Hc; left; discriminate). }
  clear Hc.
  destruct o as [hash|ht]; unfold run_op, get, get_by_height.
  - destruct (first_valid_b want n evs) as [h| | |].
    + destruct Hp as [Hp [Hn [Hv Hch]]]. rewrite Hp. cbn.
      destruct (h_id h =? hash) eqn:Eh; cbn.
      * rewrite Hn, Hv, Hch, Eh, hdr_eqb_refl. reflexivity.
      * rewrite ?Eh. reflexivity.
    + destruct Hp as [e Hp]. rewrite Hp. reflexivity.
    + destruct Hp as [e Hp]. rewrite Hp. reflexivity.
    + rewrite Hp. reflexivity.
  - destruct (ht =? 0) eqn:E0; [cbn; rewrite ?E0; reflexivity|].
    destruct (first_valid_b want n evs) as [h| | |].
    + destruct Hp as [Hp [Hn [Hv Hch]]]. rewrite Hp. cbn.
      rewrite ?Hn, ?Hv, ?Hch, ?E0, ?hdr_eqb_refl. reflexivity.
    + destruct Hp as [e Hp]. rewrite Hp. cbn. rewrite ?E0. reflexivity.
    + destruct Hp as [e Hp]. rewrite Hp. cbn. rewrite ?E0. reflexivity.
    + rewrite Hp. cbn. rewrite ?E0. reflexivity.
Qed.
