(** Correspondence oracle for the byte-level key/pointer layout (extra driver "keys" of C06).

    A case carries the inputs given to the REAL code and what it answered:
    - [KStr]   header.Hash.String / MarshalJSON on a byte string;
    - [KUnm]   header.Hash.UnmarshalJSON on arbitrary bytes (error kinds by errors.Is / errors.As);
    - [KKey]   datastore.NewKey on a string;
    - [KStore] a real store.Store over a recording datastore: one header (hash, height, encoding
      chosen by the driver) appended and synced on a fresh Store, the recorded batch; then the
      head pointer optionally deleted / overwritten by the driver; then a NEW Store started on
      that datastore: Start result, Head(), whether the head key survived, Get(hash),
      GetByHeight(height).
    [chkKeys c = (agree, ok, 0)]: [agree] = Model/Keys.v computes exactly the observation;
    [ok] = the property re-stated on the observation without the model's decoder / key functions
    where possible (well-formedness of pointers is [wf_ptr], an independent recogniser). *)
From Coq Require Strings.Byte.
From GH Require Import Base.Prelude Model.Keys.
Import Coq.Init.Byte.
Open Scope N_scope.

(** bytes as the drivers write them *)
Definition B (l : list N) : bytes := map Nb l.

Definition dres_eqb (a b : dres) : bool :=
  match a, b with
  | DOk x, DOk y => bytes_eqb x y
  | DErrQuote, DErrQuote => true
  | DErrByte x, DErrByte y => byte_eqb x y
  | DErrLen, DErrLen => true
  | _, _ => false
  end.

Definition kv_eqb (a b : bytes * bytes) : bool := bytes_eqb (fst a) (fst b) && bytes_eqb (snd a) (snd b).

(** what the driver does to the head pointer between the two Stores *)
Inductive tamper := TNone | TDelete | TSet (v : bytes).

(** observation of the reopened Store *)
Record sobs := SObs {
  o_start_err : bool;          (* Start returned an error *)
  o_head : option bytes;       (* Head(): hash of the returned header, None = ErrEmptyStore / not started *)
  o_kept : bool;               (* the head key is still in the datastore after Start *)
  o_by_hash : bool;            (* Get(hash) returned the appended header *)
  o_by_height : bool }.        (* GetByHeight(height) returned the appended header *)

Definition sobs_eqb (a b : sobs) : bool :=
  Bool.eqb (o_start_err a) (o_start_err b) && option_eqb bytes_eqb (o_head a) (o_head b) &&
  Bool.eqb (o_kept a) (o_kept b) && Bool.eqb (o_by_hash a) (o_by_hash b) && Bool.eqb (o_by_height a) (o_by_height b).

Inductive kcase :=
| KStr (h str json : bytes)
| KUnm (d : bytes) (r : dres)
| KKey (s k : bytes)
| KStore (prefix h : bytes) (n : N) (bin : bytes) (t : tamper)
         (log : list (bytes * bytes)) (o : sobs).

(** the codec of the harness header type (harness/keys): a7, 8 bytes of height, 2 bytes of
    hash length (big endian), the hash — exactly *)
Definition kh_decodes (b : bytes) : bool :=
  match b with
  | m :: _ :: _ :: _ :: _ :: _ :: _ :: _ :: _ :: hi :: lo :: rest =>
    byte_eqb m xa7 && (N.of_nat (length rest) =? 256 * bN hi + bN lo)
  | _ => false
  end.

(** ** the model's answers *)
Definition read_hash (prefix : bytes) (m : bds) (h : bytes) : option bytes :=
  match bget m (ns_key prefix (hash_key h)) with
  | Some bin => if kh_decodes bin then Some bin else None
  | None => None
  end.
Definition read_height (prefix : bytes) (m : bds) (n : N) : option bytes :=
  if n =? 0 then None else
  match bget m (ns_key prefix (height_key n)) with
  | Some hv => read_hash prefix m hv
  | None => None
  end.

Definition apply_tamper (prefix : bytes) (m : bds) (t : tamper) : bds :=
  match t with
  | TNone => m
  | TDelete => bdel m (ns_key prefix head_key)
  | TSet v => bput m (ns_key prefix head_key) v
  end.

Definition is_some {A} (o : option A) : bool := match o with Some _ => true | None => false end.

Definition model_store (prefix h : bytes) (n : N) (bin : bytes) (t : tamper) : list (bytes * bytes) * sobs :=
  let log := flush1 prefix h n bin in
  let m := apply_tamper prefix (apply_puts [] log) t in
  let '(r, m') := start_head kh_decodes prefix m in
  (log,
   SObs (match r with SStartErr => true | _ => false end)
        (match r with SHead x => Some x | _ => None end)
        (is_some (bget m' (ns_key prefix head_key)))
        (option_eqb bytes_eqb (read_hash prefix m' h) (Some bin))
        (option_eqb bytes_eqb (read_height prefix m' n) (Some bin))).

(** ** independent recognisers used by [ok] *)
Definition is_hex_digit (c : byte) : bool :=
  let n := bN c in
  ((48 <=? n) && (n <=? 57)) || ((65 <=? n) && (n <=? 70)) || ((97 <=? n) && (n <=? 102)).
Definition is_upper_hex (c : byte) : bool :=
  let n := bN c in ((48 <=? n) && (n <=? 57)) || ((65 <=? n) && (n <=? 70)).

(** a well-formed pointer value: quote, an even number of hex digits, quote *)
Definition wf_ptr (d : bytes) : bool :=
  match d with
  | [] | [_] => false
  | c :: r => byte_eqb c dq && byte_eqb (last r x00) dq &&
              Nat.even (length (removelast r)) && forallb is_hex_digit (removelast r)
  end.

(** value of an upper-case hex string, pair by pair (total; garbage digits count 0) *)
Definition uval (c : byte) : N := let n := bN c in if n <=? 57 then n - 48 else n - 55.
Fixpoint upper_pairs (s : bytes) : bytes :=
  match s with
  | p :: q :: r => Nb (16 * uval p + uval q) :: upper_pairs r
  | _ => []
  end.

Fixpoint distinct_keys (l : list (bytes * bytes)) : bool :=
  match l with
  | [] => true
  | kv :: r => negb (existsb (fun kv' => bytes_eqb (fst kv) (fst kv')) r) && distinct_keys r
  end.

(** the last path segment of a key, and the number a digit string spells (independent of [dec]) *)
Fixpoint take_plain (s : bytes) : bytes :=
  match s with
  | [] => []
  | c :: r => if byte_eqb c slash then [] else c :: take_plain r
  end.
Definition last_seg (k : bytes) : bytes := rev (take_plain (rev k)).
Fixpoint dval_rev (l : bytes) : N :=
  match l with
  | [] => 0
  | c :: r => (bN c - 48) + 10 * dval_rev r
  end.
Definition dval (s : bytes) : N := dval_rev (rev s).
(** a height-index entry for height [n] and hash [h]: key ends in the decimal digits of [n], value is the raw hash *)
Definition is_height_entry (n : N) (h : bytes) (kv : bytes * bytes) : bool :=
  let seg := last_seg (fst kv) in
  negb (bytes_eqb seg []) && forallb is_dec_digit seg && (dval seg =? n) && bytes_eqb (snd kv) h.

Definition is_plain (c : byte) : bool :=
  let n := bN c in
  ((48 <=? n) && (n <=? 57)) || ((65 <=? n) && (n <=? 90)) || ((97 <=? n) && (n <=? 122)).

Definition okKeys (c : kcase) : bool :=
  match c with
  | KStr h str json =>
    (* two upper-case hex digits per byte that read back as the bytes; the JSON form is the quoted string *)
    (length str =? 2 * length h)%nat && forallb is_upper_hex str && bytes_eqb (upper_pairs str) h &&
    bytes_eqb json (dq :: str ++ [dq])
  | KUnm d r =>
    (* accepted iff well-formed; what is accepted is, upper-cased, the canonical encoding of the result *)
    match r with
    | DOk h => wf_ptr d && bytes_eqb (map to_upper d) (dq :: map to_upper (hex_enc h) ++ [dq])
    | _ => negb (wf_ptr d)
    end
  | KKey s k =>
    (* keys are rooted; a plain non-empty string is kept as it is *)
    match k with c0 :: _ => byte_eqb c0 slash | [] => false end &&
    (if forallb is_plain s && negb (bytes_eqb s []) then bytes_eqb k (slash :: s) else true)
  | KStore prefix h n bin t log o =>
    if hash_safe h && kh_decodes bin then
      (* outside the collision region: four different keys, one of them the decimal height key holding the raw
         hash, and the header survives the restart *)
      (length log =? 4)%nat && distinct_keys log && existsb (is_height_entry n h) log &&
      o_by_hash o && (o_by_height o || (n =? 0)) &&
      match t with
      | TNone => negb (o_start_err o) && option_eqb bytes_eqb (o_head o) (Some h) && o_kept o
      | TDelete => negb (o_start_err o) && negb (is_some (o_head o)) && negb (o_kept o)
      | TSet v =>
        if wf_ptr v then
          if bytes_eqb (map to_upper v) (dq :: map to_upper (hex_enc h) ++ [dq])
          then negb (o_start_err o) && option_eqb bytes_eqb (o_head o) (Some h) && o_kept o
          else if hash_safe (upper_pairs (map to_upper (removelast (tl v))))
               then negb (o_start_err o) && negb (is_some (o_head o)) && negb (o_kept o)   (* dangling pointer: dropped *)
               else true   (* a pointer to a short all-digit hash may hit the height index key *)
        else o_start_err o && o_kept o && negb (is_some (o_head o))
      end
    else true
  end.

Definition agreeKeys (c : kcase) : bool :=
  match c with
  | KStr h str json => bytes_eqb (hash_string h) str && bytes_eqb (marshal_json h) json
  | KUnm d r => dres_eqb (unmarshal_json d) r
  | KKey s k => bytes_eqb (new_key s) k
  | KStore prefix h n bin t log o =>
    let '(l, mo) := model_store prefix h n bin t in
    list_eqb kv_eqb l log && sobs_eqb mo o
  end.

Definition chkKeys (c : kcase) : bool * bool * N := (agreeKeys c, okKeys c, 0).
