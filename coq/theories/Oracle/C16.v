(** Correspondence oracle for C16: one case = one Start() of a freshly configured
    Syncer (tail selection and pruning) over a store and a network chain.
    [chk16 c = (agree, ok, class)]. *)
From Coq Require Import ZifyBool ZifyNat ZifyN.
From GH Require Import Base.Prelude Model.Tail Proofs.TailP.

Record case16 := Case16 {
  k_params : params;
  k_times : list Z;        (* header times of the network chain, heights 1..N *)
  k_now : Z;               (* the clock at the call *)
  k_store : store;         (* the store before *)
  k_obs : obs              (* the implementation's observation *)
}.

(** the drivers write a chain as the time of header 1, a unit and the gaps between
    consecutive headers in that unit *)
Fixpoint times_from (t : Z) (u : Z) (gaps : list Z) : list Z :=
  match gaps with
  | [] => [t]
  | g :: r => t :: times_from (t + u * g)%Z u r
  end.
Definition times_of (t1 u : Z) (gaps : list Z) : list Z := times_from t1 u gaps.

Definition model16 (c : case16) : obs :=
  start_step (k_params c) (k_times c) (k_now c) (k_store c).

Definition outcome_eqb (a b : outcome) : bool :=
  match a, b with
  | OOk, OOk | OErr, OErr | OPanic, OPanic | OInvalid, OInvalid => true
  | _, _ => false
  end.
Definition store_eqb (a b : store) : bool :=
  (s_tail a =? s_tail b) && (s_head a =? s_head b) && list_eqb N.eqb (s_extra a) (s_extra b).
Definition obs_eqb (a b : obs) : bool :=
  outcome_eqb (o_out a) (o_out b) && list_eqb N.eqb (o_req a) (o_req b) && store_eqb (o_store a) (o_store b).

(** ** The property, restated on an observation *)

(** what Validate is documented to accept: positive trusting period, no negative
    duration, a hex SyncFromHash, and at least one tail policy *)
Definition valid_spec (p : params) : bool :=
  (0 <? p_trusting p)%Z && negb (p_window p <? 0)%Z && negb (p_block p <? 0)%Z && negb (p_recency p <? 0)%Z
  && match p_hash p with
     | HBadHex => false
     | HAt _ => true
     | HNone => negb (p_window p =? 0)%Z || negb (p_from p =? 0)
     end.

(** the tail is derived from the pruning window and the block time *)
Definition window_mode (p : params) : bool := hash_unset p && (p_from p =? 0).

(** an error of Start that the environment (not the tail computation) explains:
    the only head the network offers is itself expired, or the configured
    SyncFromHash / SyncFromHeight names a header the network does not have *)
Definition legit_err (c : case16) : bool :=
  let p := k_params c in let times := k_times c in let st := k_store c in
  let n := net_head times in
  ((st_empty st || expired p (k_now c) (tm0 times (s_head st))) && expired p (k_now c) (tm0 times n))
  || match p_hash p with
     | HAt k => negb (in_chain times k)
     | HNone => (0 <? p_from p) && (n <? p_from p)
     | HBadHex => false
     end.

Fixpoint heights_from (lo : N) (n : nat) : list N :=
  match n with O => [] | S m => lo :: heights_from (lo + 1) m end.

(** consecutive header times of heights lo..hi are spaced by 0 <= . <= b *)
Definition spaced (times : list Z) (b : Z) (lo hi : N) : bool :=
  forallb (fun h => match tm times h, tm times (h + 1) with
                    | Some t, Some t' => (t <=? t')%Z && (t' - t <=? b)%Z
                    | _, _ => false
                    end)
          (heights_from lo (N.to_nat (hi - lo))).

(** consecutive header times of heights lo..hi never decrease *)
Definition mono_b (times : list Z) (lo hi : N) : bool :=
  forallb (fun h => match tm times h, tm times (h + 1) with
                    | Some t, Some t' => (t <=? t')%Z
                    | _, _ => false
                    end)
          (heights_from lo (N.to_nat (hi - lo))).

(** no header that was retrievable before and is gone afterwards is younger than
    the pruning window (counted from the network head the tail was computed for):
    asked whenever header times do not decrease from the old tail on (the
    hypothesis of C16_keeps_window; spacing by at most blockTime implies it), for
    any block time; "older than the window" is strict, as proved *)
Definition keeps_window (c : case16) : bool :=
  let p := k_params c in let times := k_times c in let st := k_store c in
  let st' := o_store (k_obs c) in
  let n := net_head times in
  if window_mode p && negb (st_empty st) && mono_b times (s_tail st) n then
    forallb (fun h => negb (st_has st h && negb (st_has st' h))
                      || (tm0 times h <? tm0 times n - p_window p)%Z)
            (heights_from 1 (length times))
  else true.

(** one gap-free chain with 1 <= Tail <= Head and nothing retrievable outside of it
    (an empty store may only stay empty when Start failed); "still": asked only
    of a store that was such a chain before *)
Definition store_chain_ok (c : case16) : bool :=
  let st' := o_store (k_obs c) in
  match s_extra (k_store c) with _ :: _ => true | [] =>
  match s_extra st' with
  | [] => if st_empty st'
          then (s_head st' =? 0) && st_empty (k_store c) && negb (outcome_eqb (o_out (k_obs c)) OOk)
          else (1 <=? s_tail st') && (s_tail st' <=? s_head st')
  | _ => false
  end end.

Definition ok16 (c : case16) : bool :=
  let p := k_params c in let o := k_obs c in
  match o_out o with
  | OInvalid => negb (valid_spec p)
  | OPanic => false                                          (* never crashes *)
  | out =>
    valid_spec p
    && (negb (outcome_eqb out OErr) || legit_err c)            (* never wedges Start/Head *)
    && (negb (window_mode p)                                   (* never asks for a height outside the chain *)
        || forallb (fun h => in_chain (k_times c) h) (o_req o))
    && store_chain_ok c
    && keeps_window c
  end.

(** ** Known-finding classes: none is open (known_findings.d/C16.json is gone);
    every oracle failure is reported. *)
Definition chk16 (c : case16) : bool * bool * N :=
  (obs_eqb (model16 c) (k_obs c), ok16 c, 0).

(** ** The oracle and the model: the model's own observation ALWAYS satisfies the
    whole property oracle (so, for a store that was one gap-free chain before,
    [agree] implies [ok]) *)
Lemma valid_spec_eq p : valid_spec p = params_valid p.
Proof.
  unfold valid_spec, params_valid, hash_unset.
  destruct (p_hash p), (0 <? p_trusting p)%Z, (Z.ltb_spec (p_window p) 0), (Z.leb_spec 0 (p_window p)),
    (Z.ltb_spec (p_block p) 0), (Z.leb_spec 0 (p_block p)), (Z.ltb_spec (p_recency p) 0), (Z.leb_spec 0 (p_recency p)),
    (p_window p =? 0)%Z, (p_from p =? 0); try reflexivity; lia.
Qed.

Lemma forallb_in_chain times req :
  Forall (fun h => 1 <= h <= net_head times) req -> forallb (fun h => in_chain times h) req = true.
Proof.
  intros F. apply forallb_forall. intros h Hin. rewrite Forall_forall in F.
  apply in_chain_spec. apply F. exact Hin.
Qed.

Lemma keeps_window_superset c :
  (forall h, st_has (k_store c) h = true -> st_has (o_store (k_obs c)) h = true) -> keeps_window c = true.
Proof.
  intros Hs. unfold keeps_window. destruct (_ && _); [|reflexivity].
  apply forallb_forall. intros h _. destruct (st_has (k_store c) h) eqn:E; [|reflexivity].
  rewrite (Hs h E). reflexivity.
Qed.

Lemma store_chain_ok_wf p times now st o :
  wf (o_store o) (net_head times) -> (s_tail (o_store o) = 0 -> s_tail st = 0 /\ o_out o <> OOk) ->
  store_chain_ok (Case16 p times now st o) = true.
Proof.
  intros [We Wc] Hz. unfold store_chain_ok. cbn [k_store k_obs].
  destruct (s_extra st); [|reflexivity]. rewrite We.
  unfold st_empty. destruct (N.eqb_spec (s_tail (o_store o)) 0) as [E|E].
  - destruct (Hz E) as [Hs Ho]. destruct Wc as [[_ Wh]|Wc]; [|lia].
    rewrite Wh, Hs. cbn. destruct (o_out o); cbn; auto; contradiction.
  - destruct Wc as [[Wt _]|Wc]; [contradiction|]. lia.
Qed.

Lemma heights_from_in lo k h : lo <= h < lo + N.of_nat k -> In h (heights_from lo k).
Proof.
  revert lo. induction k as [|k IH]; intros lo Hh; [lia|].
  cbn [heights_from]. destruct (N.eq_dec h lo) as [->|Hne]; [left; reflexivity|right].
  apply IH. lia.
Qed.

Lemma spaced_mono times b lo hi : spaced times b lo hi = true ->
  forall h, lo <= h < hi -> (0 <= tmf times (h + 1) - tmf times h)%Z.
Proof.
  unfold spaced. rewrite forallb_forall. intros H h Hh.
  assert (Hin : In h (heights_from lo (N.to_nat (hi - lo)))) by (apply heights_from_in; rewrite N2Nat.id; lia).
  specialize (H h Hin). cbn beta in H. unfold tmf, tm0.
  destruct (tm times h); [|discriminate]. destruct (tm times (h + 1)); [|discriminate]. lia.
Qed.

(** the window clause of the oracle holds of every run of the model (theorem
    [start_keeps_window], in boolean form) *)
Lemma mono_b_sound times lo hi : mono_b times lo hi = true ->
  forall h, lo <= h < hi -> (0 <= tmf times (h + 1) - tmf times h)%Z.
Proof.
  unfold mono_b. rewrite forallb_forall. intros H h Hh.
  assert (Hin : In h (heights_from lo (N.to_nat (hi - lo)))) by (apply heights_from_in; rewrite N2Nat.id; lia).
  specialize (H h Hin). cbn beta in H. unfold tmf, tm0.
  destruct (tm times h); [|discriminate]. destruct (tm times (h + 1)); [|discriminate]. lia.
Qed.

Lemma keeps_window_model p times now st :
  wf st (net_head times) -> net_head times + 2 < two64 -> 1 <= net_head times -> sane (p_window p) ->
  keeps_window (Case16 p times now st (start_step p times now st)) = true.
Proof.
  intros Hwf H64 Hn Sw. unfold keeps_window. cbn [k_params k_times k_store k_obs].
  destruct (window_mode p && negb (st_empty st) && mono_b times (s_tail st) (net_head times)) eqn:C; [|reflexivity].
  assert (Hwm : window_mode p = true) by lia.
  assert (Hsp : mono_b times (s_tail st) (net_head times) = true) by lia.
  unfold window_mode, hash_unset in Hwm.
  destruct (p_hash p) eqn:Hh; try discriminate. cbn in Hwm.
  apply forallb_forall. intros h _.
  destruct (st_has st h) eqn:E1; [|reflexivity].
  destruct (st_has (o_store (start_step p times now st)) h) eqn:E2; [reflexivity|]. cbn.
  pose proof (start_keeps_window p times now st Hwf H64 Hn Hh ltac:(lia) Sw (mono_b_sound _ _ _ Hsp) h E1 E2) as K.
  unfold tmf in K. lia.
Qed.

Theorem model16_ok p times now st :
  wf st (net_head times) -> net_head times + 2 < two64 -> 1 <= net_head times -> sane (p_window p) ->
  ok16 (Case16 p times now st (start_step p times now st)) = true.
Proof.
  intros Hwf H64 Hn Sw.
  unfold ok16. cbn [k_params k_times k_now k_store k_obs].
  pose proof (keeps_window_model p times now st Hwf H64 Hn Sw) as KW.
  pose proof (start_run_no_panic p times now st) as NP.
  pose proof (start_window_any p times now st Hwf H64 Hn) as WA.
  unfold start_step in *.
  pose proof (start_run_facts p times now st Hwf H64) as F.
  pose proof (start_run_store p times now st Hwf H64) as S.
  destruct (start_run p times now st) as [m w]. cbn [fst snd] in *.
  destruct S as (Sw' & Sn & Snd).
  rewrite valid_spec_eq.
  destruct w.
  - (* WDone *)
    destruct F as (Hv & Ho & Hr & Hne).
    rewrite Ho, Hv. cbn. rewrite (forallb_in_chain _ _ Hr). rewrite Bool.orb_true_r. cbn.
    rewrite KW. rewrite Bool.andb_true_r. apply store_chain_ok_wf; auto. intros; contradiction.
  - (* WNoCall *)
    destruct F as (Hv & -> & He). cbn. rewrite Hv. cbn.
    rewrite Bool.orb_true_r. cbn. rewrite KW. rewrite Bool.andb_true_r.
    apply store_chain_ok_wf; cbn; auto. unfold st_empty in He. intros; lia.
  - (* WInvalid *)
    destruct F as (Hv & ->). cbn. rewrite Hv. reflexivity.
  - (* WInitExpired *)
    destruct F as (Hv & -> & Hl). cbn. rewrite Hv. cbn.
    unfold legit_err at 1. cbn [k_params k_times k_store k_now]. rewrite Hl. cbn.
    rewrite Bool.orb_true_r. cbn. rewrite KW. rewrite Bool.andb_true_r.
    apply store_chain_ok_wf; cbn; auto. intros; split; [assumption|discriminate].
  - (* WDivZero: unreachable *) contradiction.
  - contradiction.
  - (* WZero: only in window mode, where it is unreachable *)
    destruct F as (Hv & Ho & Hh & Hf & _). destruct (WA Hh Hf) as (A & _). destruct A as [A|[A|[A|A]]]; discriminate.
  - (* WFetch: the configured SyncFromHeight / SyncFromHash names no header of the network *)
    destruct F as (Hv & Ho & Hm & _).
    destruct Hm as [[k [Hk Hc]]|[(Hh & Hf & Hc)|(Hh & Hf)]].
    + rewrite Ho, Hv. cbn.
      assert (L : legit_err (Case16 p times now st m) = true).
      { unfold legit_err. cbn [k_params k_times]. rewrite Hk, Hc. cbn. apply Bool.orb_true_r. }
      rewrite L. unfold window_mode, hash_unset. rewrite Hk. cbn. rewrite KW. rewrite Bool.andb_true_r.
      apply store_chain_ok_wf; auto. intros E. split; [|rewrite Ho; discriminate].
      destruct (N.eq_dec (s_tail st) 0); [assumption|]. specialize (Sn ltac:(assumption)). contradiction.
    + rewrite Ho, Hv. cbn.
      assert (L : legit_err (Case16 p times now st m) = true).
      { unfold legit_err. cbn [k_params k_times]. rewrite Hh. unfold in_chain in Hc.
        assert (HH : (0 <? p_from p) && (net_head times <? p_from p) = true) by lia. rewrite HH. apply Bool.orb_true_r. }
      rewrite L. unfold window_mode, hash_unset. rewrite Hh. cbn.
      destruct (N.eqb_spec (p_from p) 0); [lia|]. cbn. rewrite KW. rewrite Bool.andb_true_r.
      apply store_chain_ok_wf; auto. intros E. split; [|rewrite Ho; discriminate].
      destruct (N.eq_dec (s_tail st) 0); [assumption|]. specialize (Sn ltac:(assumption)). contradiction.
    + destruct (WA Hh Hf) as (A & _). destruct A as [A|[A|[A|A]]]; discriminate.
  - contradiction.
Qed.

(** * Faults inside subjectiveTail (extra driver [fault], harness/c16/c16_fault_test.go)

    One case = one Start() with one injected fault of the getter or of the store.
    What the property can still ask of such a run (see Props/C16_more.v: the full
    "one gap-free chain, nothing outside" is REFUTED for failing environments): *)
Record case16f := Case16f { kf_fault : fault; kf_reqs : list greq; kf_case : case16 }.

Definition model16f (c : case16f) : obs :=
  let c0 := kf_case c in
  start_step_f (kf_fault c) (k_params c0) (k_times c0) (k_now c0) (k_store c0).

(** the weaker store invariant: the chain [Tail..Head] is gap-free (the driver
    reports a hole as the impossible extra 0) with 1 <= Tail <= Head <= network
    head, or empty; everything retrievable outside of it is a header of the
    network chain *)
Definition loose_store_ok (times : list Z) (st : store) : bool :=
  (if st_empty st then s_head st =? 0
   else (1 <=? s_tail st) && (s_tail st <=? s_head st) && (s_head st <=? net_head times))
  && forallb (fun e => in_chain times e
                       && negb (negb (st_empty st) && (s_tail st <=? e) && (e <=? s_head st)))
             (s_extra st).

(** nothing retrievable before is lost *)
Definition no_loss (c : case16) : bool :=
  forallb (fun h => negb (st_has (k_store c) h) || st_has (o_store (k_obs c)) h)
          (heights_from 1 (length (k_times c))).

Definition is_write (f : fault) : bool := match f with FWrite _ => true | _ => false end.
Definition is_none (f : fault) : bool := match f with FNone => true | _ => false end.

Definition ok16f (c : case16f) : bool :=
  let c0 := kf_case c in
  let p := k_params c0 in let o := k_obs c0 in
  if is_none (kf_fault c) then ok16 c0 else
  match o_out o with
  | OOk => ok16 c0                      (* a fault that does not surface left a complete move behind *)
  | OErr =>
    valid_spec p
    && (negb (window_mode p) || forallb (fun h => in_chain (k_times c0) h) (o_req o))
    && (match s_extra (k_store c0) with _ :: _ => true | [] => loose_store_ok (k_times c0) (o_store o) end)
    (* a failed move loses no header, except the restart from a configured tail above
       everything stored (SyncFromHeight / SyncFromHash), whose wipe went through *)
    && (no_loss c0 || (is_write (kf_fault c) && negb (window_mode p) && st_empty (o_store o)))
  | OPanic => false
  | OInvalid => negb (valid_spec p)
  end.

Definition greq_eqb (a b : greq) : bool :=
  match a, b with
  | GHash x, GHash y => x =? y
  | GRange x1 x2, GRange y1 y2 => (x1 =? y1) && (x2 =? y2)
  | _, _ => false
  end.

(** the Get(hash) / GetRangeByHeight requests the model expects inside subjectiveTail *)
Definition model16f_reqs (c : case16f) : list greq :=
  let c0 := kf_case c in
  start_reqs (kf_fault c) (k_params c0) (k_times c0) (k_now c0) (k_store c0).

(** the downward sync asks only for headers between the new and the old tail, in
    chunks of at most 64, and never for a height outside the network chain *)
Definition reqs_ok (c : case16f) : bool :=
  let c0 := kf_case c in
  forallb (fun r => match r with
                    | GHash _ => true
                    | GRange a b => (1 <=? a) && (a + 1 <? b) && (b <=? a + chunk_size + 1)
                                    && (b <=? s_tail (k_store c0) + 1)
                    end) (kf_reqs c).

Definition chk16f (c : case16f) : bool * bool * N :=
  (obs_eqb (model16f c) (k_obs (kf_case c)) && list_eqb greq_eqb (model16f_reqs c) (kf_reqs c),
   ok16f c && reqs_ok c, 0).

(** * The gossip verifier closure (extra driver [gossip]) *)
Record case16g := Case16g { kg_case : case16 }.

Definition model16g (c : case16g) : obs :=
  let c0 := kg_case c in gossip_step (k_params c0) (k_times c0) (k_store c0).

Definition ok16g (c : case16g) : bool :=
  let c0 := kg_case c in
  let p := k_params c0 in let o := k_obs c0 in let st := k_store c0 in
  match o_out o with
  | OPanic | OInvalid => false
  | OErr =>   (* only a head the verification refuses: not above the local head, or older than it *)
    negb ((s_head st <? net_head (k_times c0)) && (tm0 (k_times c0) (s_head st) <=? tm0 (k_times c0) (net_head (k_times c0)))%Z)
    && store_eqb st (o_store o)
  | OOk =>
    (negb (window_mode p) || forallb (fun h => in_chain (k_times c0) h) (o_req o))
    && store_chain_ok c0 && keeps_window c0
  end.

Definition chk16g (c : case16g) : bool * bool * N :=
  (obs_eqb (model16g c) (k_obs (kg_case c)), ok16g c, 0).

(** the oracle and the faulted model: whatever fault fires, the store the model's
    run leaves behind satisfies the weaker store clause of [ok16f] *)
Lemma lwf_loose_ok times st : lwf st (net_head times) -> loose_store_ok times st = true.
Proof.
  intros [Hc F]. unfold loose_store_ok. apply andb_true_intro. split.
  - unfold st_empty. destruct Hc as [[-> ->]|Hc]; [reflexivity|].
    destruct (N.eqb_spec (s_tail st) 0); lia.
  - apply forallb_forall. intros e He. rewrite Forall_forall in F. destruct (F e He) as [Hr Hd].
    assert (I : in_chain times e = true) by (apply in_chain_spec; exact Hr). rewrite I.
    unfold st_empty. destruct (N.eqb_spec (s_tail st) 0); cbn; [reflexivity|]. lia.
Qed.

Theorem model16f_loose f p times now st :
  wf st (net_head times) -> net_head times + 2 < two64 ->
  loose_store_ok times (o_store (start_step_f f p times now st)) = true.
Proof. intros Hwf H64. apply lwf_loose_ok. apply start_step_f_store; assumption. Qed.
