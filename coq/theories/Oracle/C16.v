(** Correspondence oracle for C16: one case = one Start() of a freshly configured
    Syncer (tail selection and pruning) over a store and a network chain.
    [chk16 c = (agree, ok, class)]. *)
From Coq Require Import ZifyBool ZifyNat ZifyN.
From GH Require Import Base.Prelude Model.Tail.

Record case16 := Case16 {
  k_params : params;
  k_times : list Z;        (* header times of the network chain, heights 1..N *)
  k_now : Z;               (* the clock at the call *)
  k_store : store;         (* the store before *)
  k_obs : obs              (* the implementation's observation *)
}.

(** the drivers write a chain as the time of header 1, a unit and the gaps between
    consecutive headers in that unit *)
Fixpoint times_from (t : Z) (u : Z) (gaps : list Z) : list Z :=
  match gaps with
  | [] => [t]
  | g :: r => t :: times_from (t + u * g)%Z u r
  end.
Definition times_of (t1 u : Z) (gaps : list Z) : list Z := times_from t1 u gaps.

Definition model16 (c : case16) : obs :=
  start_step (k_params c) (k_times c) (k_now c) (k_store c).

Definition outcome_eqb (a b : outcome) : bool :=
  match a, b with
  | OOk, OOk | OErr, OErr | OPanic, OPanic | OInvalid, OInvalid => true
  | _, _ => false
  end.
Definition store_eqb (a b : store) : bool :=
  (s_tail a =? s_tail b) && (s_head a =? s_head b) && list_eqb N.eqb (s_extra a) (s_extra b).
Definition obs_eqb (a b : obs) : bool :=
  outcome_eqb (o_out a) (o_out b) && list_eqb N.eqb (o_req a) (o_req b) && store_eqb (o_store a) (o_store b).

(** ** The property, restated on an observation *)

(** what Validate is documented to accept: positive trusting period, no negative
    duration, a hex SyncFromHash, and at least one tail policy *)
Definition valid_spec (p : params) : bool :=
  (0 <? p_trusting p)%Z && negb (p_window p <? 0)%Z && negb (p_block p <? 0)%Z && negb (p_recency p <? 0)%Z
  && match p_hash p with
     | HBadHex => false
     | HAt _ => true
     | HNone => negb (p_window p =? 0)%Z || negb (p_from p =? 0)
     end.

(** the tail is derived from the pruning window and the block time *)
Definition window_mode (p : params) : bool := hash_unset p && (p_from p =? 0).

(** an error of Start that the environment (not the tail computation) explains:
    the only head the network offers is itself expired, or the configured
    SyncFromHash / SyncFromHeight names a header the network does not have *)
Definition legit_err (c : case16) : bool :=
  let p := k_params c in let times := k_times c in let st := k_store c in
  let n := net_head times in
  ((st_empty st || expired p (k_now c) (tm0 times (s_head st))) && expired p (k_now c) (tm0 times n))
  || match p_hash p with
     | HAt k => negb (in_chain times k)
     | HNone => (0 <? p_from p) && (n <? p_from p)
     | HBadHex => false
     end.

Fixpoint heights_from (lo : N) (n : nat) : list N :=
  match n with O => [] | S m => lo :: heights_from (lo + 1) m end.

(** consecutive header times of heights lo..hi are spaced by 0 <= . <= b *)
Definition spaced (times : list Z) (b : Z) (lo hi : N) : bool :=
  forallb (fun h => match tm times h, tm times (h + 1) with
                    | Some t, Some t' => (t <=? t')%Z && (t' - t <=? b)%Z
                    | _, _ => false
                    end)
          (heights_from lo (N.to_nat (hi - lo))).

(** no header that was retrievable before and is gone afterwards is younger than
    the pruning window (counted from the network head the tail was computed for) *)
Definition keeps_window (c : case16) : bool :=
  let p := k_params c in let times := k_times c in let st := k_store c in
  let st' := o_store (k_obs c) in
  let n := net_head times in
  if window_mode p && (0 <? p_block p)%Z && negb (st_empty st) && spaced times (p_block p) (s_tail st) n then
    forallb (fun h => negb (st_has st h && negb (st_has st' h))
                      || (tm0 times h <=? tm0 times n - p_window p)%Z)
            (heights_from 1 (length times))
  else true.

(** one gap-free chain with 1 <= Tail <= Head and nothing retrievable outside of it
    (an empty store may only stay empty when Start failed); "still": asked only
    of a store that was such a chain before *)
Definition store_chain_ok (c : case16) : bool :=
  let st' := o_store (k_obs c) in
  match s_extra (k_store c) with _ :: _ => true | [] =>
  match s_extra st' with
  | [] => if st_empty st'
          then (s_head st' =? 0) && st_empty (k_store c) && negb (outcome_eqb (o_out (k_obs c)) OOk)
          else (1 <=? s_tail st') && (s_tail st' <=? s_head st')
  | _ => false
  end end.

Definition ok16 (c : case16) : bool :=
  let p := k_params c in let o := k_obs c in
  match o_out o with
  | OInvalid => negb (valid_spec p)
  | OPanic => false                                          (* never crashes *)
  | out =>
    valid_spec p
    && (negb (outcome_eqb out OErr) || legit_err c)            (* never wedges Start/Head *)
    && (negb (window_mode p)                                   (* never asks for a height outside the chain *)
        || forallb (fun h => in_chain (k_times c) h) (o_req o))
    && store_chain_ok c
    && keeps_window c
  end.

(** ** Known-finding classes (open findings of known_findings.d/C16.json).
    A class is a region of the inputs, described by the reason [why] the model
    of the current code gives for the outcome, together with "the implementation
    shows exactly this known misbehaviour" ([agree]); any other failure is class 0. *)
Definition region16 (c : case16) : N :=
  match snd (start_run (k_params c) (k_times c) (k_now c) (k_store c)) with
  | WDelete => 2                                             (* F9a: new tail above store head + 1 *)
  | _ => 0
  end.

Definition chk16 (c : case16) : bool * bool * N :=
  let agree := obs_eqb (model16 c) (k_obs c) in
  let ok := ok16 c in
  (agree, ok, if ok then 0 else if agree then region16 c else 0).


