(** Shared conventions: how Go values become Gallina values.
    uint64 -> N with explicit [wrap64]; time.Time / time.Duration -> Z (ns);
    headers -> [hdr]; Go panics -> explicit outcomes in each model. *)
From Coq Require Export NArith ZArith List Bool Lia.
Export ListNotations.
Open Scope N_scope.

Definition two64 : N := 18446744073709551616.
Definition wrap64 (x : N) : N := x mod two64.
(** uint64 subtraction with wrap-around *)
Definition sub64 (a b : N) : N := if b <=? a then a - b else two64 - (b - a).

(** A header as the library sees it (the header type's own data is abstracted
    into [h_id] (hash identity), [h_prev] (LastHeader), [h_ok] (Validate)). *)
Record hdr := Hdr {
  h_nil : bool;      (* IsZero() *)
  h_chain : N;       (* ChainID(), numbered by the harness *)
  h_height : N;      (* Height() *)
  h_time : Z;        (* Time().UnixNano() *)
  h_id : N;          (* Hash(), numbered by the harness *)
  h_prev : N;        (* LastHeader() *)
  h_ok : bool        (* Validate() == nil *)
}.

Definition hdr_nil : hdr := Hdr true 0 0 0%Z 0 0 true.

Definition hdr_eqb (a b : hdr) : bool :=
  Bool.eqb (h_nil a) (h_nil b) && (h_chain a =? h_chain b) && (h_height a =? h_height b)
  && (h_time a =? h_time b)%Z && (h_id a =? h_id b) && (h_prev a =? h_prev b)
  && Bool.eqb (h_ok a) (h_ok b).

(** Generic case checker used by every correspondence run: [chk c] returns
    (agree, ok, class): does the model reproduce the implementation's
    observation, does the property oracle accept the implementation's
    observation, and the known-finding class (0 = none) the case falls in. *)
Fixpoint bad_cases {C : Type} (chk : C -> bool * bool * N) (i : N) (l : list C)
  : list (N * bool * bool * N) :=
  match l with
  | [] => []
  | c :: r =>
    let '(a, o, k) := chk c in
    if a && o then bad_cases chk (i + 1) r else (i, a, o, k) :: bad_cases chk (i + 1) r
  end.

Fixpoint list_eqb {A} (eqb : A -> A -> bool) (l1 l2 : list A) : bool :=
  match l1, l2 with
  | [], [] => true
  | a :: r1, b :: r2 => eqb a b && list_eqb eqb r1 r2
  | _, _ => false
  end.

Definition option_eqb {A} (eqb : A -> A -> bool) (a b : option A) : bool :=
  match a, b with
  | None, None => true
  | Some x, Some y => eqb x y
  | _, _ => false
  end.
