#!/usr/bin/env python3
"""tie_leg: the second tie between /repo's Go code and the hand-written Gallina models.

run(pid, repo, out_dir, timeout) builds and runs the Go-to-Gallina translator
(tools/go2coq) on `repo`, instantiates coq/tie/<template> into out_dir/tie_<pid>.v
(the marker line is replaced by the translated definitions), compiles it with coqc
and reports which tie theorems were proved.  A function the translator cannot
translate is reported as "untranslatable" (never an alarm); a tie theorem that no
longer proves is reported in `failed`, with a concrete counterexample when the
boundary-grid search finds one.

CLI: python3 tie_leg.py Cxx [repo]
Importing this module has no side effects.
"""
import json
import os
import re
import shutil
import subprocess
import sys
import tempfile
import time

VERIF = os.path.dirname(os.path.abspath(__file__))
TIE_DIR = os.path.join(VERIF, "coq", "tie")
SPEC = os.path.join(TIE_DIR, "spec.json")
G2C_DIR = os.path.join(VERIF, "tools", "go2coq")
THEORIES = os.path.join(VERIF, "coq", "theories")
GO_BIN = "/root/go/pkg/mod/golang.org/toolchain@v0.0.1-go1.25.7.linux-amd64/bin"
MARKER = "(* @GENERATED@ *)"


def _go_env():
    env = dict(os.environ)
    env["PATH"] = GO_BIN + ":" + env.get("PATH", "")
    env.update(GOTOOLCHAIN="local", GOFLAGS="-mod=mod", GOPROXY="off", GOSUMDB="off")
    return env


def _sh(cmd, cwd, timeout, cmds, env=None):
    cmds.append("(cd %s && %s)" % (cwd, " ".join(cmd)))
    try:
        p = subprocess.run(cmd, cwd=cwd, env=env, stdout=subprocess.PIPE, stderr=subprocess.PIPE,
                           timeout=timeout, text=True)
        return p.returncode, p.stdout, p.stderr
    except subprocess.TimeoutExpired as e:
        return 124, (e.stdout or ""), (e.stderr or "") + "\ntimeout"


def _parse_template(text):
    """-> (head, blocks, tail-less list): head = text before the marker;
    segments after the marker: ("text", str) | ("block", needs, str)."""
    if MARKER not in text:
        raise ValueError("template has no marker line " + MARKER)
    head, rest = text.split(MARKER, 1)
    segs = []
    pos = 0
    for m in re.finditer(r"\(\* @BEGIN ([^*]*?)\s*\*\)(.*?)\(\* @END \*\)", rest, re.S):
        if m.start() > pos:
            segs.append(("text", None, rest[pos:m.start()]))
        needs = [x.strip() for x in m.group(1).split(",") if x.strip()]
        segs.append(("block", needs, m.group(2)))
        pos = m.end()
    if pos < len(rest):
        segs.append(("text", None, rest[pos:]))
    return head, segs


def _read_template(name, depth=0):
    """template text with `(* @INCLUDE file *)` lines expanded"""
    with open(os.path.join(TIE_DIR, name)) as fh:
        text = fh.read()
    if depth > 3:
        return text
    return re.sub(r"^\(\* @INCLUDE (\S+) \*\)[ \t]*$", lambda m: _read_template(m.group(1), depth + 1), text, flags=re.M)


def _theorems_of(block_text):
    return re.findall(r"^\s*(?:Theorem|Lemma)\s+(tie_\w+)", block_text, re.M)


class _Assembly:
    """the instantiated file, with a map from line numbers to what they belong to"""

    def __init__(self):
        self.lines = []
        self.owner = []  # per line: ("head",) | ("gen", name) | ("block", idx) | ("text",)

    def add(self, text, owner):
        for ln in text.split("\n"):
            self.lines.append(ln)
            self.owner.append(owner)

    def text(self):
        return "\n".join(self.lines) + "\n"


def _assemble(head, segs, prelude, fns, dead_fns, dead_blocks):
    a = _Assembly()
    a.add(head.rstrip("\n"), ("head",))
    a.add(prelude.rstrip("\n"), ("prelude",))
    for f in fns:
        if f["status"] == "translated" and f["name"] not in dead_fns:
            a.add("(* generated from %s : %s *)" % (f["file"], f["go"]), ("gen", f["name"]))
            a.add(f["coq"].rstrip("\n"), ("gen", f["name"]))
    ok_names = {f["name"] for f in fns if f["status"] == "translated" and f["name"] not in dead_fns}
    included = []
    for i, (kind, needs, text) in enumerate(segs):
        if kind == "text":
            a.add(text.strip("\n"), ("text",))
        elif i not in dead_blocks and all(n in ok_names for n in needs):
            a.add(text.strip("\n"), ("block", i))
            included.append(i)
    return a, included


def _error_line(stderr, fname):
    m = None
    for m in re.finditer(r'File "\./%s", line (\d+), characters' % re.escape(fname), stderr):
        pass
    # the LAST location is the one the error message follows
    ms = list(re.finditer(r'File "\./%s", line (\d+), characters' % re.escape(fname), stderr))
    if not ms:
        return None
    # pick the location preceding "Error"
    err = stderr.find("Error")
    best = ms[0]
    for mm in ms:
        if err < 0 or mm.start() < err:
            best = mm
    return int(best.group(1))


def _tail(s, n=12):
    ls = [l for l in s.strip().split("\n") if l.strip()]
    return "\n".join(ls[-n:])


# ---- counterexample search ------------------------------------------------------

_N_FULL = list(range(0, 21)) + [4294967295, 4294967296, 4294967297, 9223372036854775807,
                                 9223372036854775808, 9223372036854775809, 18446744073709551614,
                                 18446744073709551615]
_N_SMALL = [0, 1, 2, 3, 4, 4294967296, 9223372036854775807, 9223372036854775808, 18446744073709551615]
_N_TINY = [0, 1, 2, 3, 18446744073709551615]
_Z_EXTRA_FULL = [-1, -2, -3, -10, -4294967297, -9223372036854775807, -9223372036854775808]
_Z_EXTRA_SMALL = [-1, -2, -9223372036854775808]


def _grid(ty, level):
    n = [_N_FULL, _N_SMALL, _N_TINY][level]
    if ty == "N":
        return "[" + "; ".join(str(x) for x in n) + "]%N", len(n)
    if ty == "Z":
        zs = [x for x in n if x < 2 ** 63] + [[_Z_EXTRA_FULL, _Z_EXTRA_SMALL, [-1]][level]][0]
        return "[" + "; ".join("(%d)" % x for x in zs) + "]%Z", len(zs)
    if ty == "nat":
        k = [41, 12, 5][level]
        return "(seq 0 %d)" % k, k
    if ty == "bool":
        return "[true; false]", 2
    if ty == "hdr":
        chains = [[0, 1], [0, 1], [0]][level]
        heights = [[0, 1, 2, 3, 18446744073709551615], [1, 2, 3, 18446744073709551615], [1, 2]][level]
        times = [[-1, 0, 1, 10, 11], [0, 10, 11], [0, 11]][level]
        hs = ["hdr_nil"]
        for c in chains:
            for h in heights:
                for t in times:
                    hs.append("Hdr false %d %d (%d)%%Z %d 0 true" % (c, h, t, h))
        return "[" + "; ".join(hs) + "]", len(hs)
    if ty == "hdrs":
        hs = ["Hdr false 0 %d (%d)%%Z %d 0 true" % (h, t, h) for h in ([1, 2, 3, 5] if level < 2 else [1, 2]) for t in [0]]
        hs.append("hdr_nil")
        ls = ["[]"] + ["[%s]" % a for a in hs] + ["[%s; %s]" % (a, b) for a in hs for b in hs]
        if level == 0:
            ls += ["[%s; %s; %s]" % (a, b, c) for a in hs[:3] for b in hs[:3] for c in hs[:3]]
        return "[" + "; ".join(ls) + "]", len(ls)
    if ty == "tv":
        fs = ["(fun _ _ => TVOk)", "(fun _ _ => TVPlain 7)", "(fun _ _ => TVVerr true 7)", "(fun _ _ => TVVerr false 7)",
              "(fun _ _ => TVWrapped true 7)", "(fun _ _ => TVWrapped false 7)"]
        return "[" + "; ".join(fs) + "]", len(fs)
    if ty.startswith("list:"):
        return ty[5:], 8
    raise ValueError("no grid for type " + ty)


def _cex_search(fn, head, prelude, fns, dead_fns, out_dir, pid, timeout, cmds, segs=()):
    cex = fn.get("cex")
    if not cex:
        return None
    vars_ = cex["vars"]
    for level in (0, 1, 2):
        grids, total = [], 1
        for (_, ty) in vars_:
            g, n = _grid(ty, level)
            grids.append(g)
            total *= n
        if total <= 400000 or level == 2:
            break
    a = _Assembly()
    a.add(head.rstrip("\n"), ("head",))
    a.add(prelude.rstrip("\n"), ("prelude",))
    for f in fns:
        if f["status"] == "translated" and f["name"] not in dead_fns:
            a.add(f["coq"].rstrip("\n"), ("gen", f["name"]))
    for (kind, needs, text) in segs:
        if kind == "text":  # projections / tactics shared by the blocks (they use the prelude only)
            a.add(text.strip("\n"), ("text",))
    names = [v[0] for v in vars_]
    pat = names[-1]
    prod = grids[-1]
    for nm, g in zip(reversed(names[:-1]), reversed(grids[:-1])):
        pat = "(%s, %s)" % (nm, pat)
        prod = "(list_prod %s %s)" % (g, prod)
    a.add("Fixpoint cex_find {A} (f : A -> bool) (l : list A) : option A :=\n"
          "  match l with [] => None | x :: r => if f x then Some x else cex_find f r end.", ("cex",))
    a.add("Definition cex_result := Eval vm_compute in\n  cex_find (fun '%s => (%s) && negb (%s (%s) (%s))) %s.\nPrint cex_result."
          % (pat if len(names) > 1 else names[0], cex.get("pre", "true"), cex["eqb"], cex["lhs"], cex["rhs"], prod), ("cex",))
    fname = "tie_%s_cex_%s.v" % (pid, fn["name"])
    with open(os.path.join(out_dir, fname), "w") as fh:
        fh.write(a.text())
    rc, so, se = _sh(["timeout", str(timeout), "coqc", "-Q", THEORIES, "GH", fname], out_dir, timeout + 5, cmds)
    if rc != 0:
        return None
    m = re.search(r"cex_result\s*=\s*(.*?)\n\s*:", so, re.S)
    if not m:
        return None
    val = " ".join(m.group(1).split())
    if val.startswith("None"):
        return None
    return {"function": fn["go"], "vars": names, "input": val[len("Some"):].strip(), "gen": cex["lhs"], "model": cex["rhs"],
            "grid_points": total}


# ---- the leg ---------------------------------------------------------------------

def run(pid, repo="/repo", out_dir=None, timeout=600):
    t0 = time.time()
    cmds = []
    res = {"pid": pid, "repo": repo, "functions": [], "theorems": [], "proved": [], "failed": [],
           "assumptions_closed": False, "cmds": cmds}
    with open(SPEC) as fh:
        spec = json.load(fh)
    if pid not in spec["properties"]:
        res["note"] = "no tie for this property"
        res["assumptions_closed"] = True
        return res
    ps = spec["properties"][pid]
    own_dir = out_dir is None
    if own_dir:
        out_dir = tempfile.mkdtemp(prefix="tie_%s_" % pid)
    os.makedirs(out_dir, exist_ok=True)
    try:
        return _run(pid, repo, out_dir, timeout, spec, ps, res, cmds, t0)
    finally:
        if own_dir:
            shutil.rmtree(out_dir, ignore_errors=True)


def _run(pid, repo, out_dir, timeout, spec, ps, res, cmds, t0):
    binp = os.path.join(out_dir, "go2coq")
    rc, so, se = _sh(["go", "build", "-o", binp, "."], G2C_DIR, 300, cmds, env=_go_env())
    if rc != 0:
        res["error"] = "translator does not build: " + _tail(se)
        return res
    rc, so, se = _sh([binp, "-spec", SPEC, "-repo", repo, "-pid", pid], out_dir, 120, cmds)
    if rc != 0:
        res["error"] = "translator failed: " + _tail(se)
        return res
    tr = json.loads(so)
    fns = tr["functions"]
    fspec = {f["name"]: f for f in ps["functions"]}
    head, segs = _parse_template(_read_template(ps["template"]))

    dead_fns, dead_blocks = set(), set()
    failed = {}
    fname = "tie_%s.v" % pid
    out_text = ""
    base = "tie_%s" % pid
    for attempt in range(len(segs) + len(fns) + 2):
        # the full instantiation is tie_<pid>.v; re-runs without the failed parts are tie_<pid>_retry<k>.v
        fname = base + ".v" if attempt == 0 else "%s_retry%d.v" % (base, attempt)
        asm, included = _assemble(head, segs, tr["prelude"], fns, dead_fns, dead_blocks)
        with open(os.path.join(out_dir, fname), "w") as fh:
            fh.write(asm.text())
        rc, so, se = _sh(["timeout", str(timeout), "coqc", "-Q", THEORIES, "GH", fname], out_dir, timeout + 5, cmds)
        out_text = so
        if rc == 0:
            break
        ln = _error_line(se, fname)
        owner = asm.owner[ln - 1] if ln and 0 < ln <= len(asm.owner) else None
        if owner and owner[0] == "gen":
            # Coq rejects the generated definition: a limit of the translator, not a broken tie
            dead_fns.add(owner[1])
            for f in fns:
                if f["name"] == owner[1]:
                    f["status"] = "untranslatable"
                    f["reason"] = "generated definition rejected by Coq: " + _tail(se, 6)
            continue
        if owner and owner[0] == "block":
            i = owner[1]
            dead_blocks.add(i)
            ths = _theorems_of(segs[i][2]) or ["block_%d" % i]
            # the theorem being proved at the failing line
            upto = "\n".join(l for l, o in zip(asm.lines[:ln], asm.owner[:ln]) if o == owner)
            cur = _theorems_of(upto)
            for t in ths:
                failed[t] = {"theorem": t, "error_tail": _tail(se), "at": cur[-1] if cur else t,
                             "needs": segs[i][1]}
            # later blocks that use a theorem of a failed block fail with it (saves a coqc run each)
            changed = True
            while changed:
                changed = False
                for j2, (kind2, needs2, text2) in enumerate(segs):
                    if kind2 != "block" or j2 in dead_blocks or j2 not in included:
                        continue
                    dep = [t for t in failed if re.search(r"\b%s\b" % re.escape(t), text2)]
                    if dep:
                        dead_blocks.add(j2)
                        changed = True
                        for t in _theorems_of(text2):
                            failed[t] = {"theorem": t, "error_tail": "depends on the failed " + dep[0], "needs": needs2}
            continue
        if "makes inconsistent assumptions" in se or "Cannot find a physical path" in se or "Unable to locate library" in se:
            # the compiled theories (coq/theories/*.vo) are stale or missing: nothing was checked,
            # no tie is broken; rebuild the theories (the proof leg of ./check does) and run again
            res["error"] = "compiled theories are stale or missing (rebuild coq/theories first): " + _tail(se, 4)
            res["env_error"] = True
            break
        res["error"] = "template or prelude does not compile: " + _tail(se)
        for i in included:
            for t in _theorems_of(segs[i][2]):
                failed[t] = {"theorem": t, "error_tail": _tail(se), "needs": segs[i][1]}
        break

    ok_names = {f["name"] for f in fns if f["status"] == "translated"}
    theorems, proved = [], []
    for i, (kind, needs, text) in enumerate(segs):
        if kind != "block" or not all(n in ok_names for n in needs):
            continue
        for t in _theorems_of(text):
            theorems.append(t)
            if t not in failed and "error" not in res:
                proved.append(t)
    res["functions"] = [{"go": f["go"], "file": f["file"], "status": f["status"], "reason": f.get("reason", "")} for f in fns]
    res["theorems"] = theorems
    res["proved"] = proved
    res["failed"] = [{"theorem": v["theorem"], "error_tail": v["error_tail"]} for v in failed.values()]
    # Print Assumptions: one verdict per proved theorem
    closed = len(re.findall(r"Closed under the global context", out_text))
    axioms = re.findall(r"^Axioms:\s*\n((?:.+\n)+)", out_text, re.M)
    expected = sum(len(re.findall(r"^\s*Print Assumptions", segs[i][2], re.M)) for i in included) if "error" not in res else 0
    res["assumptions_closed"] = (not axioms) and closed >= expected
    if axioms:
        res["axioms"] = [a.strip() for a in axioms]
    # counterexample search for the functions of the failed theorems
    if failed:
        seen = set()
        for v in failed.values():
            for n in v["needs"]:
                if n in seen or n not in fspec:
                    continue
                seen.add(n)
                try:
                    cx = _cex_search(fspec[n], head, tr["prelude"], fns, dead_fns, out_dir, pid, min(timeout, 120), cmds, segs)
                except Exception as e:  # a search aid only
                    cx = None
                    res.setdefault("cex_errors", []).append(str(e))
                if cx and "counterexample" not in res:
                    res["counterexample"] = cx
    res["seconds"] = round(time.time() - t0, 1)
    return res


def main(argv):
    if len(argv) < 2:
        print("usage: tie_leg.py Cxx [repo] [out_dir]", file=sys.stderr)
        return 2
    pid = argv[1]
    repo = argv[2] if len(argv) > 2 else "/repo"
    out_dir = argv[3] if len(argv) > 3 else None
    r = run(pid, repo, out_dir)
    print(json.dumps(r, indent=1))
    return 1 if r.get("failed") or r.get("error") else 0


if __name__ == "__main__":
    sys.exit(main(sys.argv))
