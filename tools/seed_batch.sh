#!/bin/bash
# usage: tools/seed_batch.sh <mutdir> <props...> : confirm + check, logs into the mutdir
d=$1; shift
cd /verif
python3 tools/seed_eval.py confirm $d > $d/confirm.log 2>&1
python3 tools/seed_eval.py check $d "$@" > $d/check.log 2>&1
