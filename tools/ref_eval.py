#!/usr/bin/env python3
"""False-alarm test: apply a behaviour-preserving refactoring to a scratch copy of /repo and run EVERY
property's quick check against it (VERIF_REPO). Any VIOLATION is reported: one with a concrete replay
(oracle failure) is a false alarm of the machinery; one ending in no-failing-input-found means a proof or
the correspondence broke on a harmless rewrite (allowed by the brief, but worth knowing).

  tools/ref_eval.py <dir with patch.diff> [Cxx ...]
"""
import concurrent.futures as cf, json, os, shutil, subprocess, sys
sys.path.insert(0, os.path.dirname(os.path.abspath(__file__)))
import seed_eval

ALL = ["C%02d" % i for i in range(1, 20)]


def main():
    d = sys.argv[1]
    pids = sys.argv[2:] or ALL
    patch = os.path.abspath(os.path.join(d, "patch.diff"))
    repo = seed_eval.scratch(patch)
    res = {}
    try:
        shutil.copy("/repo/go.sum", os.path.join(repo, "go.sum"))
        rc, out = seed_eval.sh("go build ./... && go build -tags verif ./...", repo)
        if rc != 0:
            res = {"error": "does not build: " + out[-400:]}
        else:
            def one(pid):
                env = dict(seed_eval.GOENV, VERIF_REPO=repo)
                p = subprocess.run(["./check", pid, "quick"], cwd="/verif", env=env, stdout=subprocess.PIPE, stderr=subprocess.STDOUT, text=True, timeout=3600)
                lines = [l for l in p.stdout.splitlines() if l.startswith("VIOLATION") or l.startswith(pid)]
                return pid, {"rc": p.returncode, "lines": lines[:4]}
            with cf.ThreadPoolExecutor(max_workers=4) as ex:
                for pid, r in ex.map(one, pids):
                    res[pid] = r
                    print(pid, "rc=%d" % r["rc"], "; ".join(r["lines"][:2])[:300], flush=True)
    finally:
        shutil.rmtree(repo)
    json.dump(res, open(os.path.join(d, "ref_eval.json"), "w"), indent=1)
    bad = {k: v for k, v in res.items() if isinstance(v, dict) and v.get("rc")}
    print("ALARMS:", json.dumps(bad, indent=1) if bad else "none")


if __name__ == "__main__":
    main()
