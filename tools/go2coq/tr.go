package main

import (
	"bytes"
	"errors"
	"fmt"
	"go/ast"
	"go/printer"
	"go/token"
	"sort"
	"strconv"
	"strings"
)

type Kind = string

// Val is a translated expression: a Gallina term and its kind.
type Val struct {
	T     string
	K     Kind
	Elems []Kind // element kinds of a tuple
}

type Var struct {
	Go, Coq string
	K       Kind
	Depth   int
	Outer   *Var
	Poison  string
	Order   int
}

type Env struct {
	vars  map[string]*Var
	depth int
}

func (e *Env) clone() *Env {
	c := &Env{vars: make(map[string]*Var, len(e.vars)+1), depth: e.depth}
	for k, v := range e.vars {
		c.vars[k] = v
	}
	return c
}
func (e *Env) push() *Env { c := e.clone(); c.depth++; return c }
func (e *Env) popTo(d int) *Env {
	c := e.clone()
	c.depth = d
	for k, v := range c.vars {
		for v != nil && v.Depth > d {
			v = v.Outer
		}
		if v == nil {
			delete(c.vars, k)
		} else {
			c.vars[k] = v
		}
	}
	return c
}
func (e *Env) lookup(n string) *Var { return e.vars[n] }
func (e *Env) declare(v *Var) *Env {
	c := e.clone()
	v.Depth = e.depth
	v.Outer = e.vars[v.Go]
	c.vars[v.Go] = v
	return c
}

// assign rebinds an existing variable (SSA renaming), keeping its scope.
func (e *Env) assign(name, coq string) *Env {
	old := e.vars[name]
	c := e.clone()
	c.vars[name] = &Var{Go: name, Coq: coq, K: old.K, Depth: old.Depth, Outer: old.Outer, Order: old.Order}
	return c
}

type Ctx struct {
	onReturn   func(vals []Val) (string, error)
	onFall     func(env *Env) (string, error)
	onBreak    func(env *Env) (string, error)
	onContinue func(env *Env) (string, error)
	panicT     string
	fuelT      string
	main       bool // the context of the function being defined (may become monadic)
}

type guard struct {
	name, call string
}

type argRef struct {
	coq  string
	kind Kind
}

// lazyErr: the value cannot be translated but computing it has no effect that
// matters (logging / tracing / clock reads); an assignment of it poisons the
// variable instead of failing the function.
type lazyErr struct{ msg string }

func (l *lazyErr) Error() string { return l.msg }

var errNeedMonadic = errors.New("need monadic result")

type FT struct {
	spec     *Spec
	ps       *PropSpec
	pkg      *Pkg
	fs       *FnSpec
	done     map[string]bool
	recv     string
	recvType string
	names    map[string]int
	aux      []string
	guards   []guard
	monadic  bool
	retKinds []Kind
	fuels    []string
	nloops   int
	order    int
	inLoop   bool
	inlining int
	argPaths map[string]argRef
	sigArgs  []ArgSpec
	loopMemo map[token.Pos][]loopDef
}

// a loop already emitted: the continuation of a branching statement is
// translated once per branch, so the same Go loop is met several times; it is
// emitted once (binders are canonical, so the texts coincide)
type loopDef struct {
	name, fuel, text string
}

// canonLoopEnv rebinds the loop's read-only and state variables to canonical
// binder names and starts a private name supply for the loop body.
func (f *FT) canonLoopEnv(env *Env, vs ...[]*Var) (*Env, map[string]int) {
	saved := f.names
	f.names = map[string]int{}
	for _, a := range f.sigArgs {
		f.names["l_"+a.Coq] = 1
	}
	e := env.clone()
	for _, group := range vs {
		for i, v := range group {
			isSig := false
			for _, a := range f.sigArgs {
				if a.Coq == v.Coq {
					isSig = true
				}
			}
			nv := *v
			if !isSig {
				nv.Coq = "v_" + v.Go
			}
			group[i] = &nv
			e.vars[v.Go] = &nv
		}
	}
	return e, saved
}

func (f *FT) memoLoop(pos token.Pos, mk func(name string) string, fueled bool) (string, string) {
	if f.loopMemo == nil {
		f.loopMemo = map[token.Pos][]loopDef{}
	}
	for _, d := range f.loopMemo[pos] {
		if mk(d.name) == d.text {
			return d.name, d.fuel
		}
	}
	f.nloops++
	name := fmt.Sprintf("gen_%s_loop%d", f.fs.Name, f.nloops)
	fuel := ""
	if fueled {
		fuel = fmt.Sprintf("fuel%d", f.nloops)
		f.fuels = append(f.fuels, fuel)
	}
	text := mk(name)
	f.loopMemo[pos] = append(f.loopMemo[pos], loopDef{name, fuel, text})
	f.aux = append(f.aux, text)
	return name, fuel
}

func translateFunc(spec *Spec, ps *PropSpec, pkg *Pkg, fs *FnSpec, fd *ast.FuncDecl, done map[string]bool) (string, error) {
	for _, monadic := range []bool{false, true} {
		f := &FT{spec: spec, ps: ps, pkg: pkg, fs: fs, done: done, monadic: monadic,
			names: map[string]int{}, argPaths: map[string]argRef{}}
		s, err := f.run(fd)
		if err == errNeedMonadic && !monadic {
			continue
		}
		return s, err
	}
	return "", errors.New("internal: monadic retry failed")
}

func (f *FT) errAt(n ast.Node, format string, a ...any) error {
	p := f.pkg.fset.Position(n.Pos())
	return fmt.Errorf("%s (%s:%d)", fmt.Sprintf(format, a...), shortFile(p.Filename), p.Line)
}

func shortFile(s string) string {
	if i := strings.LastIndex(s, "/"); i >= 0 {
		return s[i+1:]
	}
	return s
}

func (f *FT) src(n ast.Node) string {
	var b bytes.Buffer
	printer.Fprint(&b, f.pkg.fset, n)
	s := b.String()
	s = strings.Join(strings.Fields(s), " ")
	if len(s) > 70 {
		s = s[:70] + "..."
	}
	return s
}

var coqReserved = map[string]bool{"end": true, "at": true, "as": true, "in": true, "if": true, "then": true, "else": true,
	"fun": true, "let": true, "match": true, "with": true, "return": true, "forall": true, "exists": true, "fix": true,
	"using": true, "where": true, "Type": true, "Prop": true, "Set": true, "for": true, "cofix": true, "struct": true, "by": true}

func (f *FT) fresh(base string) string {
	base = "l_" + base
	n := f.names[base]
	f.names[base] = n + 1
	if n == 0 {
		return base
	}
	return base + strconv.Itoa(n)
}

// ---- kinds and types ------------------------------------------------------

func (f *FT) kindOfType(t ast.Expr) Kind {
	if k, ok := f.ps.GoTypes[f.norm(t)]; ok {
		return k
	}
	switch x := t.(type) {
	case *ast.Ident:
		switch x.Name {
		case "uint64":
			return "u64"
		case "int", "int64":
			return "i64"
		case "bool":
			return "bool"
		case "error":
			return "err"
		case "string":
			return "str"
		case "H":
			return "hdr"
		}
		return "opaque:" + x.Name
	case *ast.SelectorExpr:
		s := f.norm(x)
		switch s {
		case "time.Duration":
			return "i64"
		case "time.Time":
			return "time"
		}
		return "opaque:" + s
	case *ast.ArrayType:
		if x.Len == nil && f.kindOfType(x.Elt) == "hdr" {
			return "hdrs"
		}
		return "opaque:" + f.src(t)
	case *ast.StarExpr:
		if id, ok := x.X.(*ast.Ident); ok {
			return "ptr:" + id.Name
		}
	}
	return "opaque:" + f.src(t)
}

func (f *FT) coqType(k Kind) (string, error) {
	switch k {
	case "u64", "chain":
		return "N", nil
	case "i64", "time":
		return "Z", nil
	case "bool":
		return "bool", nil
	case "hdr":
		return "hdr", nil
	case "hdrs":
		return "list hdr", nil
	case "unit":
		return "unit", nil
	}
	if strings.HasPrefix(k, "coq:") {
		return k[4:], nil
	}
	if t, ok := f.ps.Types[k]; ok {
		return t, nil
	}
	return "", fmt.Errorf("no Gallina type for kind %s", k)
}

func (f *FT) tupleType(ks []Kind) (string, error) {
	if len(ks) == 0 {
		return "unit", nil
	}
	var ts []string
	for _, k := range ks {
		t, err := f.coqType(k)
		if err != nil {
			return "", err
		}
		ts = append(ts, t)
	}
	if len(ts) == 1 {
		return ts[0], nil
	}
	return "(" + strings.Join(ts, " * ") + ")%type", nil
}

func tupleTerm(ts []string) string {
	if len(ts) == 0 {
		return "tt"
	}
	if len(ts) == 1 {
		return ts[0]
	}
	return "(" + strings.Join(ts, ", ") + ")"
}

func (f *FT) zero(k Kind) (string, error) {
	switch k {
	case "u64", "chain":
		return "0", nil
	case "i64", "time":
		return "0%Z", nil
	case "bool":
		return "false", nil
	case "hdrs":
		return "[]", nil
	case "err":
		return f.ps.ErrNil, nil
	}
	if z, ok := f.ps.Zero[k]; ok {
		return z, nil
	}
	if _, ok := f.ps.Lists[k]; ok {
		return "[]", nil
	}
	return "", fmt.Errorf("no zero value for kind %s", k)
}

// ---- normalised source of an expression ------------------------------------

func (f *FT) norm(e ast.Expr) string {
	switch x := e.(type) {
	case *ast.Ident:
		if f.recv != "" && x.Name == f.recv {
			return "$"
		}
		return x.Name
	case *ast.SelectorExpr:
		return f.norm(x.X) + "." + x.Sel.Name
	case *ast.CallExpr:
		var as []string
		for _, a := range x.Args {
			as = append(as, f.norm(a))
		}
		return f.norm(x.Fun) + "(" + strings.Join(as, ", ") + ")"
	case *ast.BasicLit:
		return x.Value
	case *ast.BinaryExpr:
		return f.norm(x.X) + " " + x.Op.String() + " " + f.norm(x.Y)
	case *ast.UnaryExpr:
		return x.Op.String() + f.norm(x.X)
	case *ast.ParenExpr:
		return "(" + f.norm(x.X) + ")"
	case *ast.IndexExpr:
		return f.norm(x.X) + "[" + f.norm(x.Index) + "]"
	case *ast.StarExpr:
		return "*" + f.norm(x.X)
	}
	return f.src(e)
}

// norm1: the source text of a statement on one line
func (f *FT) norm1(n ast.Node) string {
	var b bytes.Buffer
	printer.Fprint(&b, f.pkg.fset, n)
	return strings.Join(strings.Fields(b.String()), " ")
}

func (f *FT) isDropped(path string) bool {
	for _, p := range f.spec.Dropped {
		if strings.HasPrefix(path, p) {
			return true
		}
	}
	return false
}

// ---- the function -----------------------------------------------------------

func (f *FT) run(fd *ast.FuncDecl) (string, error) {
	if fd.Recv != nil && len(fd.Recv.List) == 1 && len(fd.Recv.List[0].Names) == 1 {
		f.recv = fd.Recv.List[0].Names[0].Name
		f.recvType = recvBase(fd.Recv.List[0].Type)
	}
	env := &Env{vars: map[string]*Var{}}
	goParams := map[string]Kind{}
	for _, fl := range fd.Type.Params.List {
		for _, n := range fl.Names {
			goParams[n.Name] = f.kindOfType(fl.Type)
		}
	}
	var sig []string
	used := map[string]bool{}
	for _, a := range f.fs.Args {
		k := a.Type
		ct, err := f.coqType(k)
		if err != nil {
			return "", err
		}
		sig = append(sig, fmt.Sprintf("(%s : %s)", a.Coq, ct))
		f.names["l_"+a.Coq] = 1
		if _, isParam := goParams[a.Go]; isParam {
			f.order++
			env = env.declare(&Var{Go: a.Go, Coq: a.Coq, K: k, Order: f.order})
			used[a.Go] = true
		} else if a.Go != "" {
			f.argPaths[a.Go] = argRef{a.Coq, k}
		}
	}
	f.sigArgs = f.fs.Args
	for n, k := range goParams {
		if !used[n] && n != "_" {
			f.order++
			env = env.declare(&Var{Go: n, K: k, Poison: "parameter " + n + " (" + k + ") is not mapped by spec.json", Order: f.order})
		}
	}
	if fd.Type.Results != nil {
		for _, fl := range fd.Type.Results.List {
			n := len(fl.Names)
			if n == 0 {
				n = 1
			}
			for i := 0; i < n; i++ {
				f.retKinds = append(f.retKinds, f.kindOfType(fl.Type))
			}
		}
	}
	rt, err := f.tupleType(f.retKinds)
	if err != nil {
		return "", err
	}
	ctx := &Ctx{main: true}
	if f.monadic {
		ctx.panicT, ctx.fuelT = "GPanic", "GOutOfFuel"
	}
	ctx.onReturn = func(vals []Val) (string, error) {
		var ts []string
		for _, v := range vals {
			ts = append(ts, v.T)
		}
		if f.monadic {
			return "GVal " + paren(tupleTerm(ts)), nil
		}
		if f.fs.StopAt != "" {
			return "Some " + paren(tupleTerm(ts)), nil
		}
		return tupleTerm(ts), nil
	}
	ctx.onFall = func(*Env) (string, error) {
		if len(f.retKinds) == 0 {
			return ctx.onReturn(nil)
		}
		return "", f.errAt(fd.Body, "control reaches the end of a function with results")
	}
	body, err := f.stmts(fd.Body.List, env.push(), ctx)
	if err != nil {
		return "", err
	}
	if f.monadic {
		if f.fs.StopAt != "" {
			return "", errors.New("prefix translation (stop_at) of a function that may panic or loop")
		}
		rt = "gen_res " + paren(rt)
	} else if f.fs.StopAt != "" {
		rt = "option " + paren(rt)
	}
	var b strings.Builder
	for _, a := range f.aux {
		b.WriteString(a)
		b.WriteString("\n")
	}
	var fuels []string
	for _, fu := range f.fuels {
		fuels = append(fuels, "("+fu+" : nat)")
	}
	fmt.Fprintf(&b, "Definition gen_%s %s : %s :=\n%s.\n", f.fs.Name, strings.Join(append(fuels, sig...), " "), rt, indent(body, 1))
	return b.String(), nil
}

func paren(s string) string {
	if strings.ContainsAny(s, " \n") && !(strings.HasPrefix(s, "(") && balancedOuter(s)) {
		return "(" + s + ")"
	}
	return s
}

func balancedOuter(s string) bool {
	d := 0
	for i, c := range s {
		if c == '(' {
			d++
		} else if c == ')' {
			d--
			if d == 0 && i != len(s)-1 {
				return false
			}
		}
	}
	return d == 0 && strings.HasSuffix(s, ")")
}

func indent(s string, n int) string {
	pad := strings.Repeat("  ", n)
	return pad + strings.ReplaceAll(s, "\n", "\n"+pad)
}

func (f *FT) panicTerm(ctx *Ctx, n ast.Node) (string, error) {
	if ctx.panicT != "" {
		return ctx.panicT, nil
	}
	if ctx.main && !f.monadic {
		return "", errNeedMonadic
	}
	return "", f.errAt(n, "possible run-time panic in a context without a panic outcome: %s", f.src(n))
}

func (f *FT) fuelTerm(ctx *Ctx, n ast.Node) (string, error) {
	if ctx.fuelT != "" {
		return ctx.fuelT, nil
	}
	if ctx.main && !f.monadic {
		return "", errNeedMonadic
	}
	return "", f.errAt(n, "loop in a context without an out-of-fuel outcome")
}

// takeGuards removes and returns the pending panic guards.
func (f *FT) takeGuards() []guard {
	g := f.guards
	f.guards = nil
	return g
}

func (f *FT) wrapGuards(gs []guard, body string, ctx *Ctx, n ast.Node) (string, error) {
	if len(gs) == 0 {
		return body, nil
	}
	pt, err := f.panicTerm(ctx, n)
	if err != nil {
		return "", err
	}
	for i := len(gs) - 1; i >= 0; i-- {
		body = fmt.Sprintf("match %s with\n| None => %s\n| Some %s =>\n%s\nend", gs[i].call, pt, gs[i].name, indent(body, 1))
	}
	return body, nil
}

// ---- statements -------------------------------------------------------------

func (f *FT) stmts(list []ast.Stmt, env *Env, ctx *Ctx) (string, error) {
	if len(list) == 0 {
		return ctx.onFall(env)
	}
	if ctx.main && f.fs.StopAt != "" && f.inlining == 0 && strings.Contains(f.norm1(list[0]), f.fs.StopAt) {
		return "None", nil // end of the translated prefix
	}
	return f.stmt(list[0], env, ctx, func(e *Env) (string, error) { return f.stmts(list[1:], e, ctx) })
}

func (f *FT) block(b *ast.BlockStmt, env *Env, ctx *Ctx, k func(*Env) (string, error)) (string, error) {
	d := env.depth
	c2 := *ctx
	c2.onFall = func(e *Env) (string, error) { return k(e.popTo(d)) }
	return f.stmts(b.List, env.push(), &c2)
}

func (f *FT) calleePath(call *ast.CallExpr) string {
	fun := call.Fun
	if ix, ok := fun.(*ast.IndexExpr); ok {
		fun = ix.X
	}
	return f.norm(fun)
}

func (f *FT) stmt(s ast.Stmt, env *Env, ctx *Ctx, k func(*Env) (string, error)) (string, error) {
	switch s := s.(type) {
	case *ast.EmptyStmt:
		return k(env)
	case *ast.BlockStmt:
		return f.block(s, env, ctx, k)
	case *ast.ExprStmt:
		if call, ok := s.X.(*ast.CallExpr); ok {
			if p := f.calleePath(call); f.isDropped(p) {
				return k(env)
			}
		}
		return "", f.errAt(s, "expression statement with an effect that is not modelled: %s", f.src(s))
	case *ast.DeferStmt:
		if p := f.calleePath(s.Call); f.isDropped(p) {
			return k(env)
		}
		return "", f.errAt(s, "defer of a call that is not dropped: %s", f.src(s))
	case *ast.ReturnStmt:
		return f.returnStmt(s, env, ctx)
	case *ast.IfStmt:
		if s.Init != nil {
			d := env.depth
			return f.stmt(s.Init, env.push(), ctx, func(e *Env) (string, error) {
				return f.ifNoInit(s, e, ctx, func(e2 *Env) (string, error) { return k(e2.popTo(d)) })
			})
		}
		return f.ifNoInit(s, env, ctx, k)
	case *ast.SwitchStmt:
		return f.switchStmt(s, env, ctx, k)
	case *ast.AssignStmt:
		return f.assignStmt(s, env, ctx, k)
	case *ast.IncDecStmt:
		op := token.ADD
		if s.Tok == token.DEC {
			op = token.SUB
		}
		as := &ast.AssignStmt{Lhs: []ast.Expr{s.X}, TokPos: s.TokPos, Tok: token.ASSIGN,
			Rhs: []ast.Expr{&ast.BinaryExpr{X: s.X, OpPos: s.TokPos, Op: op, Y: &ast.BasicLit{ValuePos: s.TokPos, Kind: token.INT, Value: "1"}}}}
		return f.assignStmt(as, env, ctx, k)
	case *ast.DeclStmt:
		return f.declStmt(s, env, ctx, k)
	case *ast.ForStmt:
		return f.forStmt(s, env, ctx, k)
	case *ast.RangeStmt:
		return f.rangeStmt(s, env, ctx, k)
	case *ast.BranchStmt:
		if s.Label != nil {
			return "", f.errAt(s, "labelled %s", s.Tok)
		}
		switch s.Tok {
		case token.BREAK:
			if ctx.onBreak == nil {
				return "", f.errAt(s, "break outside a translated loop")
			}
			return ctx.onBreak(env)
		case token.CONTINUE:
			if ctx.onContinue == nil {
				return "", f.errAt(s, "continue outside a translated loop")
			}
			return ctx.onContinue(env)
		}
		return "", f.errAt(s, "statement %s", s.Tok)
	}
	return "", f.errAt(s, "statement of kind %T: %s", s, f.src(s))
}

func (f *FT) returnStmt(s *ast.ReturnStmt, env *Env, ctx *Ctx) (string, error) {
	kinds := f.retKinds
	if len(s.Results) == 0 && len(kinds) > 0 {
		return "", f.errAt(s, "bare return with named results")
	}
	var vals []Val
	if len(s.Results) == 1 && len(kinds) > 1 {
		v, err := f.expr(s.Results[0], env, "")
		if err != nil {
			return "", err
		}
		if len(v.Elems) != len(kinds) {
			return "", f.errAt(s, "return of a multi-valued call of unknown shape: %s", f.src(s))
		}
		var ns []string
		for i, ek := range v.Elems {
			n := f.fresh("r")
			ns = append(ns, n)
			cv, err := f.coerce(Val{T: n, K: ek}, kinds[i], s)
			if err != nil {
				return "", err
			}
			vals = append(vals, cv)
		}
		gs := f.takeGuards()
		body, err := ctx.onReturn(vals)
		if err != nil {
			return "", err
		}
		body = fmt.Sprintf("let '%s := %s in\n%s", tupleTerm(ns), v.T, body)
		return f.wrapGuards(gs, body, ctx, s)
	}
	if len(s.Results) != len(kinds) {
		return "", f.errAt(s, "return arity")
	}
	for i, r := range s.Results {
		v, err := f.expr(r, env, kinds[i])
		if err != nil {
			return "", err
		}
		vals = append(vals, v)
	}
	gs := f.takeGuards()
	body, err := ctx.onReturn(vals)
	if err != nil {
		return "", err
	}
	return f.wrapGuards(gs, body, ctx, s)
}

// errors.As(err, &target) as the whole (possibly negated) condition of an if
func (f *FT) matchErrorsAs(cond ast.Expr) (call *ast.CallExpr, neg bool, ok bool) {
	if p, isP := cond.(*ast.ParenExpr); isP {
		return f.matchErrorsAs(p.X)
	}
	if u, isU := cond.(*ast.UnaryExpr); isU && u.Op == token.NOT {
		c, n, ok := f.matchErrorsAs(u.X)
		return c, !n, ok
	}
	if c, isC := cond.(*ast.CallExpr); isC && f.norm(c.Fun) == "errors.As" && len(c.Args) == 2 {
		return c, false, true
	}
	return nil, false, false
}

func (f *FT) ifNoInit(s *ast.IfStmt, env *Env, ctx *Ctx, k func(*Env) (string, error)) (string, error) {
	elseK := func(e *Env) (string, error) {
		switch el := s.Else.(type) {
		case nil:
			return k(e)
		case *ast.BlockStmt:
			return f.block(el, e, ctx, k)
		case *ast.IfStmt:
			return f.stmt(el, e, ctx, k)
		}
		return "", f.errAt(s, "else of unknown shape")
	}
	if call, neg, ok := f.matchErrorsAs(s.Cond); ok {
		u, isU := call.Args[1].(*ast.UnaryExpr)
		if !isU || u.Op != token.AND {
			return "", f.errAt(call, "errors.As with a target that is not &variable")
		}
		id, isId := u.X.(*ast.Ident)
		if !isId || env.lookup(id.Name) == nil {
			return "", f.errAt(call, "errors.As with a target that is not a local variable")
		}
		tv := env.lookup(id.Name)
		tmpl, have := f.ps.ErrorsAs[tv.K]
		if !have {
			return "", f.errAt(call, "errors.As into %s is not in the symbol table", tv.K)
		}
		src, err := f.expr(call.Args[0], env, "err")
		if err != nil {
			return "", err
		}
		gs := f.takeGuards()
		n := f.fresh(id.Name)
		envFound := env.assign(id.Name, n)
		var thenT, elseT string
		if !neg {
			thenT, err = f.block(s.Body, envFound, ctx, k)
			if err != nil {
				return "", err
			}
			elseT, err = elseK(env)
		} else {
			thenT, err = elseK(envFound)
			if err != nil {
				return "", err
			}
			elseT, err = f.block(s.Body, env, ctx, k)
		}
		if err != nil {
			return "", err
		}
		body := fmt.Sprintf("match %s with\n| Some %s =>\n%s\n| None =>\n%s\nend", subst(tmpl, "", []string{src.T}), n, indent(thenT, 1), indent(elseT, 1))
		return f.wrapGuards(gs, body, ctx, s)
	}
	c, err := f.expr(s.Cond, env, "bool")
	if err != nil {
		return "", err
	}
	gs := f.takeGuards()
	thenT, err := f.block(s.Body, env, ctx, k)
	if err != nil {
		return "", err
	}
	elseT, err := elseK(env)
	if err != nil {
		return "", err
	}
	body := fmt.Sprintf("if %s then\n%s\nelse\n%s", c.T, indent(thenT, 1), indent(elseT, 1))
	return f.wrapGuards(gs, body, ctx, s)
}

func (f *FT) switchStmt(s *ast.SwitchStmt, env *Env, ctx *Ctx, k func(*Env) (string, error)) (string, error) {
	if s.Init != nil || s.Tag != nil {
		return "", f.errAt(s, "switch with an init statement or a tag")
	}
	d := env.depth
	// break inside a switch leaves the switch
	c2 := *ctx
	c2.onBreak = func(e *Env) (string, error) { return k(e.popTo(d)) }
	var clauses []*ast.CaseClause
	var def *ast.CaseClause
	for _, st := range s.Body.List {
		cc := st.(*ast.CaseClause)
		if cc.List == nil {
			def = cc
		} else {
			clauses = append(clauses, cc)
		}
		for _, b := range cc.Body {
			if br, ok := b.(*ast.BranchStmt); ok && br.Tok == token.FALLTHROUGH {
				return "", f.errAt(br, "fallthrough")
			}
		}
	}
	bodyOf := func(cc *ast.CaseClause) (string, error) {
		return f.block(&ast.BlockStmt{Lbrace: cc.Pos(), List: cc.Body}, env, &c2, k)
	}
	var build func(i int) (string, error)
	build = func(i int) (string, error) {
		if i == len(clauses) {
			if def != nil {
				return bodyOf(def)
			}
			return k(env)
		}
		cc := clauses[i]
		var cs []string
		for _, e := range cc.List {
			v, err := f.expr(e, env, "bool")
			if err != nil {
				return "", err
			}
			cs = append(cs, v.T)
		}
		if len(f.guards) > 0 {
			return "", f.errAt(cc, "possibly panicking expression in a case condition")
		}
		c := cs[0]
		if len(cs) > 1 {
			c = "(" + strings.Join(cs, " || ") + ")"
		}
		thenT, err := bodyOf(cc)
		if err != nil {
			return "", err
		}
		elseT, err := build(i + 1)
		if err != nil {
			return "", err
		}
		return fmt.Sprintf("if %s then\n%s\nelse\n%s", c, indent(thenT, 1), indent(elseT, 1)), nil
	}
	return build(0)
}

func (f *FT) declStmt(s *ast.DeclStmt, env *Env, ctx *Ctx, k func(*Env) (string, error)) (string, error) {
	gd, ok := s.Decl.(*ast.GenDecl)
	if !ok || gd.Tok != token.VAR {
		return "", f.errAt(s, "declaration: %s", f.src(s))
	}
	var lets []string
	for _, sp := range gd.Specs {
		vs := sp.(*ast.ValueSpec)
		for i, n := range vs.Names {
			var k0 Kind
			if vs.Type != nil {
				k0 = f.kindOfType(vs.Type)
			}
			var term string
			if i < len(vs.Values) {
				v, err := f.expr(vs.Values[i], env, k0)
				if err != nil {
					return "", err
				}
				if len(f.guards) > 0 {
					return "", f.errAt(s, "possibly panicking initialiser in var declaration")
				}
				term, k0 = v.T, v.K
			} else {
				z, err := f.zero(k0)
				if err != nil {
					f.order++
					env = env.declare(&Var{Go: n.Name, K: k0, Poison: "variable " + n.Name + " of type " + k0 + " has no modelled zero value", Order: f.order})
					continue
				}
				term = z
			}
			cn := f.fresh(n.Name)
			f.order++
			env = env.declare(&Var{Go: n.Name, Coq: cn, K: k0, Order: f.order})
			lets = append(lets, fmt.Sprintf("let %s := %s in", cn, term))
		}
	}
	rest, err := k(env)
	if err != nil {
		return "", err
	}
	return strings.Join(append(lets, rest), "\n"), nil
}

func (f *FT) assignStmt(s *ast.AssignStmt, env *Env, ctx *Ctx, k func(*Env) (string, error)) (string, error) {
	// op-assign
	if s.Tok != token.ASSIGN && s.Tok != token.DEFINE {
		var op token.Token
		switch s.Tok {
		case token.ADD_ASSIGN:
			op = token.ADD
		case token.SUB_ASSIGN:
			op = token.SUB
		case token.MUL_ASSIGN:
			op = token.MUL
		case token.QUO_ASSIGN:
			op = token.QUO
		default:
			return "", f.errAt(s, "assignment operator %s", s.Tok)
		}
		as := &ast.AssignStmt{Lhs: s.Lhs, TokPos: s.TokPos, Tok: token.ASSIGN,
			Rhs: []ast.Expr{&ast.BinaryExpr{X: s.Lhs[0], OpPos: s.TokPos, Op: op, Y: s.Rhs[0]}}}
		return f.assignStmt(as, env, ctx, k)
	}
	bind := func(e *Env, lhs ast.Expr, v Val, lets *[]string) (*Env, error) {
		switch l := lhs.(type) {
		case *ast.Ident:
			if l.Name == "_" {
				return e, nil
			}
			old := e.lookup(l.Name)
			if s.Tok == token.DEFINE && (old == nil || old.Depth != e.depth) {
				cn := f.fresh(l.Name)
				f.order++
				*lets = append(*lets, fmt.Sprintf("let %s := %s in", cn, v.T))
				return e.declare(&Var{Go: l.Name, Coq: cn, K: v.K, Order: f.order}), nil
			}
			if old == nil {
				return nil, f.errAt(lhs, "assignment to %s, which is not a local variable", l.Name)
			}
			if old.K == "poison" {
				// the old value was never translated; the assignment replaces it
				cn := f.fresh(l.Name)
				*lets = append(*lets, fmt.Sprintf("let %s := %s in", cn, v.T))
				c := e.clone()
				c.vars[l.Name] = &Var{Go: l.Name, Coq: cn, K: v.K, Depth: old.Depth, Outer: old.Outer, Order: old.Order}
				return c, nil
			}
			cv, err := f.coerce(v, old.K, lhs)
			if err != nil {
				return nil, err
			}
			cn := f.fresh(l.Name)
			*lets = append(*lets, fmt.Sprintf("let %s := %s in", cn, cv.T))
			return e.assign(l.Name, cn), nil
		case *ast.SelectorExpr:
			id, ok := l.X.(*ast.Ident)
			if !ok || e.lookup(id.Name) == nil {
				return nil, f.errAt(lhs, "assignment to a field of something that is not a local variable: %s", f.src(lhs))
			}
			old := e.lookup(id.Name)
			sym, have := f.ps.FieldSet[old.K+"."+l.Sel.Name]
			if !have {
				return nil, f.errAt(lhs, "assignment to field %s of %s is not in the symbol table", l.Sel.Name, old.K)
			}
			cv, err := f.coerce(v, sym.Kind, lhs)
			if err != nil {
				return nil, err
			}
			cn := f.fresh(id.Name)
			*lets = append(*lets, fmt.Sprintf("let %s := %s in", cn, subst(sym.Coq, "", []string{old.Coq, cv.T})))
			return e.assign(id.Name, cn), nil
		}
		return nil, f.errAt(lhs, "assignment target %s", f.src(lhs))
	}
	poison := func(e *Env, lhs ast.Expr, why string) *Env {
		id, ok := lhs.(*ast.Ident)
		if !ok || id.Name == "_" {
			return e
		}
		f.order++
		old := e.lookup(id.Name)
		if s.Tok == token.DEFINE && (old == nil || old.Depth != e.depth) {
			return e.declare(&Var{Go: id.Name, K: "poison", Poison: why, Order: f.order})
		}
		if old == nil {
			return e
		}
		c := e.clone()
		c.vars[id.Name] = &Var{Go: id.Name, K: old.K, Depth: old.Depth, Outer: old.Outer, Poison: why, Order: old.Order}
		return c
	}
	wantOf := func(lhs ast.Expr) Kind {
		if id, ok := lhs.(*ast.Ident); ok && id.Name != "_" {
			if old := env.lookup(id.Name); old != nil && !(s.Tok == token.DEFINE && old.Depth != env.depth) && old.K != "poison" {
				return old.K
			}
		}
		if sel, ok := lhs.(*ast.SelectorExpr); ok {
			if id, ok := sel.X.(*ast.Ident); ok {
				if old := env.lookup(id.Name); old != nil {
					if sym, have := f.ps.FieldSet[old.K+"."+sel.Sel.Name]; have {
						return sym.Kind
					}
				}
			}
		}
		return ""
	}
	var lets []string
	e2 := env
	if len(s.Lhs) == len(s.Rhs) {
		var vals []Val
		var lazies []error
		for i, r := range s.Rhs {
			v, err := f.expr(r, env, wantOf(s.Lhs[i]))
			var lz *lazyErr
			if errors.As(err, &lz) {
				vals = append(vals, Val{})
				lazies = append(lazies, err)
				continue
			}
			if err != nil {
				return "", err
			}
			if v.K == "untyped" {
				v, err = f.coerce(v, "i64", r)
				if err != nil {
					return "", err
				}
			}
			if v.K == "nil" {
				return "", f.errAt(r, "untyped nil assigned to a new variable")
			}
			vals = append(vals, v)
			lazies = append(lazies, nil)
		}
		gs := f.takeGuards()
		for i, l := range s.Lhs {
			if lazies[i] != nil {
				e2 = poison(e2, l, lazies[i].Error())
				continue
			}
			var err error
			e2, err = bind(e2, l, vals[i], &lets)
			if err != nil {
				return "", err
			}
		}
		rest, err := k(e2)
		if err != nil {
			return "", err
		}
		return f.wrapGuards(gs, strings.Join(append(lets, rest), "\n"), ctx, s)
	}
	if len(s.Rhs) != 1 {
		return "", f.errAt(s, "assignment shape")
	}
	v, err := f.expr(s.Rhs[0], env, "")
	var lz *lazyErr
	if errors.As(err, &lz) {
		for _, l := range s.Lhs {
			e2 = poison(e2, l, err.Error())
		}
		return k(e2)
	}
	if err != nil {
		return "", err
	}
	if len(v.Elems) != len(s.Lhs) {
		return "", f.errAt(s, "multi-valued right-hand side of unknown shape: %s", f.src(s.Rhs[0]))
	}
	gs := f.takeGuards()
	var ns []string
	var inner []string
	for i, l := range s.Lhs {
		if id, ok := l.(*ast.Ident); ok && id.Name == "_" {
			ns = append(ns, "_")
			continue
		}
		n := f.fresh("t")
		ns = append(ns, n)
		e2, err = bind(e2, l, Val{T: n, K: v.Elems[i]}, &inner)
		if err != nil {
			return "", err
		}
	}
	rest, err := k(e2)
	if err != nil {
		return "", err
	}
	head := fmt.Sprintf("let '%s := %s in", tupleTerm(ns), v.T)
	return f.wrapGuards(gs, strings.Join(append(append([]string{head}, inner...), rest), "\n"), ctx, s)
}

// ---- loops --------------------------------------------------------------------

// assigned collects the names assigned (not declared) anywhere in n.
func assigned(n ast.Node, out map[string]bool) {
	ast.Inspect(n, func(x ast.Node) bool {
		switch s := x.(type) {
		case *ast.AssignStmt:
			for _, l := range s.Lhs {
				switch t := l.(type) {
				case *ast.Ident:
					out[t.Name] = true
				case *ast.SelectorExpr:
					if id, ok := t.X.(*ast.Ident); ok {
						out[id.Name] = true
					}
				}
			}
		case *ast.IncDecStmt:
			if id, ok := s.X.(*ast.Ident); ok {
				out[id.Name] = true
			}
		}
		return true
	})
}

func referenced(n ast.Node, out map[string]bool) {
	ast.Inspect(n, func(x ast.Node) bool {
		if id, ok := x.(*ast.Ident); ok {
			out[id.Name] = true
		}
		return true
	})
}

func hasLoop(n ast.Node) bool {
	found := false
	ast.Inspect(n, func(x ast.Node) bool {
		switch x.(type) {
		case *ast.ForStmt, *ast.RangeStmt:
			found = true
		}
		return true
	})
	return found
}

// loopVars splits the locals visible at a loop into the state (assigned in the
// loop) and the read-only ones that are referenced; both in declaration order.
func (f *FT) loopVars(env *Env, nodes []ast.Node, exclude map[string]bool) (state, ro []*Var) {
	as, refs := map[string]bool{}, map[string]bool{}
	for _, n := range nodes {
		if n == nil {
			continue
		}
		assigned(n, as)
		referenced(n, refs)
	}
	sigNames := map[string]bool{}
	for _, a := range f.sigArgs {
		sigNames[a.Coq] = true
	}
	for name, v := range env.vars {
		if v.Poison != "" || exclude[name] {
			continue
		}
		if as[name] {
			state = append(state, v)
		} else if refs[name] && !sigNames[v.Coq] {
			ro = append(ro, v)
		}
	}
	sort.Slice(state, func(i, j int) bool { return state[i].Order < state[j].Order })
	sort.Slice(ro, func(i, j int) bool { return ro[i].Order < ro[j].Order })
	return
}

func (f *FT) binders(vs []*Var) (string, []string, []Kind, error) {
	var bs, ns []string
	var ks []Kind
	for _, v := range vs {
		t, err := f.coqType(v.K)
		if err != nil {
			return "", nil, nil, err
		}
		bs = append(bs, fmt.Sprintf("(%s : %s)", v.Coq, t))
		ns = append(ns, v.Coq)
		ks = append(ks, v.K)
	}
	return strings.Join(bs, " "), ns, ks, nil
}

func (f *FT) sigBinders(state []*Var) (string, string) {
	var bs, ns []string
	shadow := map[string]bool{}
	for _, v := range state {
		shadow[v.Coq] = true
	}
	for _, a := range f.sigArgs {
		if shadow[a.Coq] {
			continue // the argument is itself loop state
		}
		t, _ := f.coqType(a.Type)
		bs = append(bs, fmt.Sprintf("(%s : %s)", a.Coq, t))
		ns = append(ns, a.Coq)
	}
	return strings.Join(bs, " "), strings.Join(ns, " ")
}

func stateOf(e *Env, state []*Var) []string {
	var ts []string
	for _, v := range state {
		ts = append(ts, e.lookup(v.Go).Coq)
	}
	return ts
}

func joinNonEmpty(parts ...string) string {
	var out []string
	for _, p := range parts {
		if p != "" {
			out = append(out, p)
		}
	}
	return strings.Join(out, " ")
}

func (f *FT) forStmt(s *ast.ForStmt, env *Env, ctx *Ctx, k func(*Env) (string, error)) (string, error) {
	if s.Init != nil || s.Post != nil {
		return "", f.errAt(s, "three-clause for loop")
	}
	if f.inLoop || f.inlining > 0 {
		return "", f.errAt(s, "nested loop / loop in an inlined callee")
	}
	if hasLoop(s.Body) {
		return "", f.errAt(s, "nested loop")
	}
	fuelT, err := f.fuelTerm(ctx, s)
	if err != nil {
		return "", err
	}
	panicT, err := f.panicTerm(ctx, s)
	if err != nil {
		return "", err
	}
	state, ro := f.loopVars(env, []ast.Node{s.Cond, s.Body}, nil)
	var outerRo, outerSt []string
	for _, v := range ro {
		outerRo = append(outerRo, v.Coq)
	}
	for _, v := range state {
		outerSt = append(outerSt, v.Coq)
	}
	outerState := append([]*Var(nil), state...)
	lenv, savedNames := f.canonLoopEnv(env, ro, state)
	restore := func() { f.names = savedNames }
	sigB, sigN := f.sigBinders(state)
	roB, roN, _, err := f.binders(ro)
	if err != nil {
		restore()
		return "", err
	}
	stB, stN, stK, err := f.binders(state)
	if err != nil {
		restore()
		return "", err
	}
	rt, err := f.tupleType(f.retKinds)
	if err != nil {
		restore()
		return "", err
	}
	st, _ := f.tupleType(stK)
	d := env.depth
	const self = "@SELF@"
	lctx := &Ctx{panicT: "GLPanic", fuelT: "GLFuel"}
	lctx.onReturn = func(vals []Val) (string, error) {
		var ts []string
		for _, v := range vals {
			ts = append(ts, v.T)
		}
		return "GLRet " + paren(tupleTerm(ts)), nil
	}
	lctx.onContinue = func(e *Env) (string, error) {
		e = e.popTo(d)
		return joinNonEmpty(self, "fuel'", sigN, strings.Join(roN, " "), strings.Join(stateOf(e, state), " ")), nil
	}
	lctx.onBreak = func(e *Env) (string, error) {
		return "GLExit " + paren(tupleTerm(stateOf(e.popTo(d), state))), nil
	}
	lctx.onFall = lctx.onContinue
	cond := "true"
	if s.Cond != nil {
		c, err := f.expr(s.Cond, lenv, "bool")
		if err != nil {
			restore()
			return "", err
		}
		if len(f.guards) > 0 {
			restore()
			return "", f.errAt(s.Cond, "possibly panicking loop condition")
		}
		cond = c.T
	}
	f.inLoop = true
	body, err := f.block(s.Body, lenv, lctx, lctx.onContinue)
	f.inLoop = false
	restore()
	if err != nil {
		return "", err
	}
	mk := func(name string) string {
		def := fmt.Sprintf("Fixpoint %s {struct fuel} : gen_lres %s %s :=\n  if %s then\n    match fuel with\n    | O => GLFuel\n    | S fuel' =>\n%s\n    end\n  else GLExit %s.",
			joinNonEmpty(name, "(fuel : nat)", sigB, roB, stB), paren(rt), paren(st), cond, indent(body, 3), paren(tupleTerm(stN)))
		return strings.ReplaceAll(def, self, name)
	}
	name, fuel := f.memoLoop(s.Pos(), mk, true)
	return f.loopUse(joinNonEmpty(name, fuel, sigN, strings.Join(outerRo, " "), strings.Join(outerSt, " ")), true, fuelT, panicT, env, outerState, ctx, k)
}

func (f *FT) loopUse(call string, fueled bool, fuelT, panicT string, env *Env, state []*Var, ctx *Ctx, k func(*Env) (string, error)) (string, error) {
	var rn []string
	var rv []Val
	for _, rk := range f.retKinds {
		n := f.fresh("r")
		rn = append(rn, n)
		rv = append(rv, Val{T: n, K: rk})
	}
	retT, err := ctx.onReturn(rv)
	if err != nil {
		return "", err
	}
	e2 := env
	var sn []string
	for _, v := range state {
		n := f.fresh(v.Go)
		sn = append(sn, n)
		e2 = e2.assign(v.Go, n)
	}
	rest, err := k(e2)
	if err != nil {
		return "", err
	}
	pat := func(ns []string) string {
		if len(ns) == 0 {
			return "_"
		}
		if len(ns) == 1 {
			return ns[0]
		}
		return "(" + strings.Join(ns, ", ") + ")"
	}
	if fueled {
		return fmt.Sprintf("match %s with\n| GLFuel => %s\n| GLPanic => %s\n| GLRet %s =>\n%s\n| GLExit %s =>\n%s\nend",
			call, fuelT, panicT, pat(rn), indent(retT, 1), pat(sn), indent(rest, 1)), nil
	}
	return fmt.Sprintf("match %s with\n| GRRet %s =>\n%s\n| GRExit %s =>\n%s\nend",
		call, pat(rn), indent(retT, 1), pat(sn), indent(rest, 1)), nil
}

func (f *FT) rangeStmt(s *ast.RangeStmt, env *Env, ctx *Ctx, k func(*Env) (string, error)) (string, error) {
	if f.inLoop || f.inlining > 0 || hasLoop(s.Body) {
		return "", f.errAt(s, "nested loop / loop in an inlined callee")
	}
	if s.Tok != token.DEFINE && (s.Key != nil || s.Value != nil) {
		return "", f.errAt(s, "range loop assigning to existing variables")
	}
	xs, err := f.expr(s.X, env, "")
	if err != nil {
		return "", err
	}
	if xs.K != "hdrs" {
		return "", f.errAt(s.X, "range over %s (only slices of headers are modelled)", xs.K)
	}
	if len(f.guards) > 0 {
		return "", f.errAt(s.X, "possibly panicking range expression")
	}
	state, ro := f.loopVars(env, []ast.Node{s.Body}, nil)
	as := map[string]bool{}
	assigned(s.Body, as)
	if id, ok := s.X.(*ast.Ident); ok && as[id.Name] {
		return "", f.errAt(s, "the slice ranged over is assigned in the loop body")
	}
	var outerRo, outerSt []string
	for _, v := range ro {
		outerRo = append(outerRo, v.Coq)
	}
	for _, v := range state {
		outerSt = append(outerSt, v.Coq)
	}
	outerState := append([]*Var(nil), state...)
	lenv, savedNames := f.canonLoopEnv(env, ro, state)
	restore := func() { f.names = savedNames }
	sigB, sigN := f.sigBinders(state)
	roB, roN, _, err := f.binders(ro)
	if err != nil {
		restore()
		return "", err
	}
	stB, stN, stK, err := f.binders(state)
	if err != nil {
		restore()
		return "", err
	}
	rt, err := f.tupleType(f.retKinds)
	if err != nil {
		restore()
		return "", err
	}
	st, _ := f.tupleType(stK)
	idx, lst, elem, lst2 := f.fresh("idx"), f.fresh("lst"), f.fresh("elem"), f.fresh("lst")
	d := env.depth
	benv := lenv.push()
	if id, ok := s.Key.(*ast.Ident); ok && id.Name != "_" {
		f.order++
		benv = benv.declare(&Var{Go: id.Name, Coq: idx, K: "i64", Order: f.order})
	}
	if id, ok := s.Value.(*ast.Ident); ok && id.Name != "_" {
		f.order++
		benv = benv.declare(&Var{Go: id.Name, Coq: elem, K: "hdr", Order: f.order})
	}
	const self = "@SELF@"
	lctx := &Ctx{}
	lctx.onReturn = func(vals []Val) (string, error) {
		var ts []string
		for _, v := range vals {
			ts = append(ts, v.T)
		}
		return "GRRet " + paren(tupleTerm(ts)), nil
	}
	lctx.onContinue = func(e *Env) (string, error) {
		e = e.popTo(d)
		return joinNonEmpty(self, sigN, strings.Join(roN, " "), "("+idx+" + 1)%Z", lst2, strings.Join(stateOf(e, state), " ")), nil
	}
	lctx.onBreak = func(e *Env) (string, error) {
		return "GRExit " + paren(tupleTerm(stateOf(e.popTo(d), state))), nil
	}
	lctx.onFall = lctx.onContinue
	f.inLoop = true
	body, err := f.block(s.Body, benv, lctx, lctx.onContinue)
	f.inLoop = false
	restore()
	if err != nil {
		return "", err
	}
	mk := func(name string) string {
		def := fmt.Sprintf("Fixpoint %s {struct %s} : gen_rres %s %s :=\n  match %s with\n  | [] => GRExit %s\n  | %s :: %s =>\n%s\n  end.",
			joinNonEmpty(name, sigB, roB, "("+idx+" : Z)", "("+lst+" : list hdr)", stB), lst, paren(rt), paren(st),
			lst, paren(tupleTerm(stN)), elem, lst2, indent(body, 2))
		return strings.ReplaceAll(def, self, name)
	}
	name, _ := f.memoLoop(s.Pos(), mk, false)
	return f.loopUse(joinNonEmpty(name, sigN, strings.Join(outerRo, " "), "0%Z", paren(xs.T), strings.Join(outerSt, " ")), false, "", "", env, outerState, ctx, k)
}

// subst fills a symbol-table template.
func subst(tmpl, recv string, args []string) string {
	s := strings.ReplaceAll(tmpl, "{recv}", paren(recv))
	for i, a := range args {
		s = strings.ReplaceAll(s, "{"+strconv.Itoa(i)+"}", paren(a))
	}
	return s
}
