module go2coq

go 1.23
