// go2coq: a small, honest Go-to-Gallina translator for the pure decision /
// arithmetic cores named in /verif/coq/tie/spec.json.
//
//	go2coq -spec spec.json -repo /repo -pid C09
//
// prints a JSON object {"prelude": "...", "functions": [{go, file, name, status,
// reason, coq}]}.  Everything that cannot be translated is reported as
// "untranslatable" with the construct named; nothing is guessed.
// Standard library only.
package main

import (
	"encoding/json"
	"flag"
	"fmt"
	"go/ast"
	"go/parser"
	"go/token"
	"os"
	"path/filepath"
	"strings"
)

// ---- spec ---------------------------------------------------------------

type ArgSpec struct {
	Coq  string `json:"coq"`  // name of the Gallina parameter
	Go   string `json:"go"`   // Go parameter name, or a normalised expression ("$.start", "clockDrift", "$.store.Height()"); "" = ambient only
	Type string `json:"type"` // a kind (u64, i64, time, bool, hdr, hdrs, chain, err, ...) or "coq:<type>"
}

type SymSpec struct {
	Coq  string `json:"coq"`  // template: {recv}, {0}, {1}, ...
	Kind string `json:"kind"` // result kind; "tuple:a,b" for multi-valued calls
}

type FieldSpec struct {
	Name string `json:"name"`
	Kind string `json:"kind"`
}

type CompositeSpec struct {
	Coq    string      `json:"coq"`
	Kind   string      `json:"kind"`
	Fields []FieldSpec `json:"fields"`
}

type FnSpec struct {
	Go        string    `json:"go"`   // "minHeadResponses" or "headerRange.rangeAmount"
	File      string    `json:"file"` // relative to the repository root
	Name      string    `json:"name"` // gen_<name>
	Args      []ArgSpec `json:"args"`
	StopAt    string    `json:"stop_at"`    // translate only the prefix before the first statement whose source contains this text; result: option (None = the prefix falls through)
	OpaqueErr string    `json:"opaque_err"` // Gallina term for an error that wraps no sentinel ("" = untranslatable)
	Theorems  []string  `json:"theorems"`
	Cex       json.RawMessage `json:"cex"`
}

type PropSpec struct {
	Template   string                   `json:"template"`
	Functions  []FnSpec                 `json:"functions"`
	Types      map[string]string        `json:"types"`      // kind -> Gallina type
	Zero       map[string]string        `json:"zero"`       // kind -> zero value
	ErrNil     string                   `json:"err_nil"`    // Gallina term of the nil error
	ErrIsNil   string                   `json:"err_is_nil"` // template {0} : bool
	Sentinels  map[string]string        `json:"sentinels"`
	Consts     map[string]SymSpec       `json:"consts"`  // package-level constants / variables by normalised path
	Methods    map[string]SymSpec       `json:"methods"` // methods of the header interface
	Calls      map[string]SymSpec       `json:"calls"`   // calls by normalised callee path
	Composites map[string]CompositeSpec `json:"composites"`
	FieldSet   map[string]SymSpec       `json:"field_set"` // "<kind>.<Field>" -> template {0} {1}
	FieldGet   map[string]SymSpec       `json:"field_get"`
	Conv       map[string]string        `json:"conv"`      // "<from>><to>" -> template {0}
	ErrorsAs   map[string]string        `json:"errors_as"` // kind of the target -> template {0} : option <kind>
	ErrorsIs   string                   `json:"errors_is"` // template {0} {1} : bool
	GoTypes    map[string]string        `json:"go_types"`  // normalised Go type -> kind
	Lists      map[string]string        `json:"lists"`     // list kind -> element kind
}

type Spec struct {
	Dropped    []string            `json:"dropped"` // callee path prefixes dropped as logging / metrics / tracing / locking
	Properties map[string]PropSpec `json:"properties"`
}

// ---- output -------------------------------------------------------------

type FnOut struct {
	Go     string `json:"go"`
	File   string `json:"file"`
	Name   string `json:"name"`
	Status string `json:"status"`
	Reason string `json:"reason"`
	Coq    string `json:"coq"`
}

type Out struct {
	Prelude   string  `json:"prelude"`
	Functions []FnOut `json:"functions"`
}

// ---- packages -----------------------------------------------------------

type Pkg struct {
	dir   string
	fset  *token.FileSet
	funcs map[string]*ast.FuncDecl // "name" and "Recv.name"
}

func loadPkg(dir string) (*Pkg, error) {
	fset := token.NewFileSet()
	ents, err := os.ReadDir(dir)
	if err != nil {
		return nil, err
	}
	p := &Pkg{dir: dir, fset: fset, funcs: map[string]*ast.FuncDecl{}}
	for _, e := range ents {
		n := e.Name()
		if e.IsDir() || !strings.HasSuffix(n, ".go") || strings.HasSuffix(n, "_test.go") {
			continue
		}
		src, err := os.ReadFile(filepath.Join(dir, n))
		if err != nil {
			return nil, err
		}
		if strings.Contains(string(src[:min(len(src), 400)]), "//go:build") {
			continue // build-tagged helper files (verif hooks) are not part of the translated code
		}
		f, err := parser.ParseFile(fset, filepath.Join(dir, n), src, parser.SkipObjectResolution)
		if err != nil {
			return nil, err
		}
		for _, d := range f.Decls {
			fd, ok := d.(*ast.FuncDecl)
			if !ok || fd.Body == nil {
				continue
			}
			key := fd.Name.Name
			if fd.Recv != nil && len(fd.Recv.List) == 1 {
				key = recvBase(fd.Recv.List[0].Type) + "." + key
			}
			p.funcs[key] = fd
		}
	}
	return p, nil
}

func recvBase(t ast.Expr) string {
	switch x := t.(type) {
	case *ast.StarExpr:
		return recvBase(x.X)
	case *ast.IndexExpr:
		return recvBase(x.X)
	case *ast.IndexListExpr:
		return recvBase(x.X)
	case *ast.Ident:
		return x.Name
	}
	return "?"
}

func main() {
	specPath := flag.String("spec", "", "spec.json")
	repo := flag.String("repo", "/repo", "repository root")
	pid := flag.String("pid", "", "property id")
	flag.Parse()
	raw, err := os.ReadFile(*specPath)
	if err != nil {
		fmt.Fprintln(os.Stderr, err)
		os.Exit(2)
	}
	var spec Spec
	if err := json.Unmarshal(raw, &spec); err != nil {
		fmt.Fprintln(os.Stderr, "spec:", err)
		os.Exit(2)
	}
	ps, ok := spec.Properties[*pid]
	if !ok {
		fmt.Fprintln(os.Stderr, "no such property in spec:", *pid)
		os.Exit(2)
	}
	out := Out{Prelude: prelude}
	pkgs := map[string]*Pkg{}
	done := map[string]bool{} // spec'd functions already translated (callable as gen_<name>)
	for i := range ps.Functions {
		fs := &ps.Functions[i]
		fo := FnOut{Go: fs.Go, File: fs.File, Name: fs.Name}
		dir := filepath.Join(*repo, filepath.Dir(fs.File))
		pkg := pkgs[dir]
		if pkg == nil {
			pkg, err = loadPkg(dir)
			if err != nil {
				fo.Status, fo.Reason = "untranslatable", "cannot parse package: "+err.Error()
				out.Functions = append(out.Functions, fo)
				continue
			}
			pkgs[dir] = pkg
		}
		fd := pkg.funcs[fs.Go]
		if fd == nil {
			fo.Status, fo.Reason = "untranslatable", "function "+fs.Go+" not found in "+filepath.Dir(fs.File)
			out.Functions = append(out.Functions, fo)
			continue
		}
		if got := filepath.Base(pkg.fset.Position(fd.Pos()).Filename); got != filepath.Base(fs.File) {
			fo.File = filepath.Join(filepath.Dir(fs.File), got)
		}
		coq, err := translateFunc(&spec, &ps, pkg, fs, fd, done)
		if err != nil {
			fo.Status, fo.Reason = "untranslatable", err.Error()
		} else {
			fo.Status, fo.Coq = "translated", coq
			done[fs.Go] = true
		}
		out.Functions = append(out.Functions, fo)
	}
	enc := json.NewEncoder(os.Stdout)
	enc.SetIndent("", " ")
	enc.Encode(out)
}

// prelude: the run-time conventions of the generated code (Go integer and
// time arithmetic), self-contained so that every template can use it.
const prelude = `(* ---- go2coq run-time conventions ---- *)
Local Open Scope N_scope.
Definition gen_two63 : Z := 9223372036854775808%Z.
(* two's complement wrap of a mathematical integer to int64 *)
Definition gen_wrapi64 (x : Z) : Z := ((x + gen_two63) mod (2 * gen_two63) - gen_two63)%Z.
(* time.Time.Sub / time.Since saturate at the int64 range *)
Definition gen_sat64 (x : Z) : Z := Z.max (- gen_two63) (Z.min (gen_two63 - 1) x).
(* uint64(d) of an int64 d; int64(u) of a uint64 u *)
Definition gen_u64 (x : Z) : N := Z.to_N (x mod (2 * gen_two63)).
Definition gen_i64 (x : N) : Z := gen_wrapi64 (Z.of_N x).
(* integer division: None = run-time panic "integer divide by zero" *)
Definition gen_div64 (a b : Z) : option Z := if (b =? 0)%Z then None else Some (gen_wrapi64 (Z.quot a b)).
Definition gen_divu64 (a b : N) : option N := if b =? 0 then None else Some (a / b).
(* make([]T, 0, c): None = run-time panic "makeslice: cap out of range" above the limit m *)
Definition gen_capok (m c : N) : option unit := if m <? c then None else Some tt.
(* time.Time.Compare *)
Definition gen_cmp (a b : Z) : Z := if (a <? b)%Z then (-1)%Z else if (b <? a)%Z then 1%Z else 0%Z.
(* outcome of a function that may panic or run a fuel-bounded loop *)
Inductive gen_res (T : Type) := GPanic | GOutOfFuel | GVal (v : T).
Arguments GPanic {T}. Arguments GOutOfFuel {T}. Arguments GVal {T} v.
(* outcome of a loop: out of fuel, panic, the function returned r, the loop exited with state s *)
Inductive gen_lres (R S : Type) := GLFuel | GLPanic | GLRet (r : R) | GLExit (s : S).
Arguments GLFuel {R S}. Arguments GLPanic {R S}. Arguments GLRet {R S} r. Arguments GLExit {R S} s.
(* outcome of a range loop over a slice: the function returned r, the loop ended with state s *)
Inductive gen_rres (R S : Type) := GRRet (r : R) | GRExit (s : S).
Arguments GRRet {R S} r. Arguments GRExit {R S} s.
`
