package main

import (
	"fmt"
	"go/ast"
	"go/token"
	"strings"
)

func (f *FT) expr(e ast.Expr, env *Env, want Kind) (Val, error) {
	v, err := f.expr0(e, env, want)
	if err != nil {
		return v, err
	}
	return f.coerce(v, want, e)
}

func (f *FT) coerce(v Val, want Kind, at ast.Node) (Val, error) {
	if want == "" || v.K == want {
		return v, nil
	}
	switch v.K {
	case "untyped":
		switch want {
		case "u64", "chain":
			if strings.HasPrefix(v.T, "-") {
				return v, f.errAt(at, "negative constant %s as an unsigned value", v.T)
			}
			return Val{T: v.T, K: want}, nil
		case "i64", "time":
			return Val{T: "(" + v.T + ")%Z", K: want}, nil
		}
	case "nil":
		_, isList := f.ps.Lists[want]
		if z, err := f.zero(want); err == nil && (want == "err" || want == "hdrs" || isList || strings.HasPrefix(want, "ptr:")) {
			return Val{T: z, K: want}, nil
		}
	}
	if t, ok := f.ps.Conv[v.K+">"+want]; ok {
		return Val{T: subst(t, "", []string{v.T}), K: want}, nil
	}
	return v, f.errAt(at, "value of kind %s where %s is needed: %s", v.K, want, f.src(at))
}

func (f *FT) argByPath(p string) (Val, bool) {
	if a, ok := f.argPaths[p]; ok {
		return Val{T: a.coq, K: a.kind}, true
	}
	return Val{}, false
}

func (f *FT) sym(s SymSpec, recv string, args []string) Val {
	v := Val{T: subst(s.Coq, recv, args), K: s.Kind}
	if strings.HasPrefix(s.Kind, "tuple:") {
		v.Elems = strings.Split(s.Kind[6:], ",")
	}
	return v
}

func (f *FT) expr0(e ast.Expr, env *Env, want Kind) (Val, error) {
	// locals first
	if id, ok := e.(*ast.Ident); ok {
		if v := env.lookup(id.Name); v != nil {
			if v.Poison != "" {
				return Val{}, f.errAt(e, "%s is used but could not be translated: %s", id.Name, v.Poison)
			}
			return Val{T: v.Coq, K: v.K}, nil
		}
	}
	// the explicit escape hatch of spec.json: an expression named as an argument
	np := f.norm(e)
	if v, ok := f.argByPath(np); ok {
		return v, nil
	}
	switch x := e.(type) {
	case *ast.ParenExpr:
		return f.expr0(x.X, env, want)
	case *ast.Ident:
		switch x.Name {
		case "true", "false":
			return Val{T: x.Name, K: "bool"}, nil
		case "nil":
			return Val{K: "nil"}, nil
		}
		if s, ok := f.ps.Sentinels[x.Name]; ok {
			return Val{T: s, K: "err"}, nil
		}
		if c, ok := f.ps.Consts[x.Name]; ok {
			return Val{T: c.Coq, K: c.Kind}, nil
		}
		return Val{}, f.errAt(e, "identifier %s is neither a local, a mapped argument nor in the symbol table", x.Name)
	case *ast.BasicLit:
		if x.Kind == token.INT {
			return Val{T: strings.ReplaceAll(x.Value, "_", ""), K: "untyped"}, nil
		}
		return Val{}, f.errAt(e, "literal %s", x.Value)
	case *ast.SelectorExpr:
		if s, ok := f.ps.Sentinels[np]; ok {
			return Val{T: s, K: "err"}, nil
		}
		if c, ok := f.ps.Consts[np]; ok {
			return Val{T: c.Coq, K: c.Kind}, nil
		}
		switch np {
		case "math.MaxUint64":
			return Val{T: "18446744073709551615", K: "u64"}, nil
		case "math.MaxInt64":
			return Val{T: "9223372036854775807%Z", K: "i64"}, nil
		case "time.Nanosecond":
			return Val{T: "1%Z", K: "i64"}, nil
		case "time.Microsecond":
			return Val{T: "1000%Z", K: "i64"}, nil
		case "time.Millisecond":
			return Val{T: "1000000%Z", K: "i64"}, nil
		case "time.Second":
			return Val{T: "1000000000%Z", K: "i64"}, nil
		case "time.Minute":
			return Val{T: "60000000000%Z", K: "i64"}, nil
		case "time.Hour":
			return Val{T: "3600000000000%Z", K: "i64"}, nil
		}
		// a field of a local with a symbol-table getter
		if id, ok := x.X.(*ast.Ident); ok {
			if v := env.lookup(id.Name); v != nil && v.Poison == "" {
				if s, have := f.ps.FieldGet[v.K+"."+x.Sel.Name]; have {
					return f.sym(s, v.Coq, []string{v.Coq}), nil
				}
			}
		}
		return Val{}, f.errAt(e, "selector %s is not a mapped argument or constant", np)
	case *ast.UnaryExpr:
		switch x.Op {
		case token.NOT:
			v, err := f.expr(x.X, env, "bool")
			if err != nil {
				return v, err
			}
			return Val{T: "negb " + paren(v.T), K: "bool"}, nil
		case token.SUB:
			v, err := f.expr(x.X, env, want)
			if err != nil {
				return v, err
			}
			switch v.K {
			case "untyped":
				if strings.HasPrefix(v.T, "-") {
					return Val{T: v.T[1:], K: "untyped"}, nil
				}
				return Val{T: "-" + v.T, K: "untyped"}, nil
			case "i64":
				return Val{T: "gen_wrapi64 (- " + paren(v.T) + ")%Z", K: "i64"}, nil
			case "u64":
				return Val{T: "sub64 0 " + paren(v.T), K: "u64"}, nil
			}
			return v, f.errAt(e, "unary minus on %s", v.K)
		case token.AND:
			if cl, ok := x.X.(*ast.CompositeLit); ok {
				return f.composite(cl, env)
			}
		}
		return Val{}, f.errAt(e, "unary operator %s: %s", x.Op, f.src(e))
	case *ast.BinaryExpr:
		return f.binary(x, env, want)
	case *ast.CompositeLit:
		return f.composite(x, env)
	case *ast.CallExpr:
		return f.call(x, env, want)
	}
	return Val{}, f.errAt(e, "expression of kind %T: %s", e, f.src(e))
}

func (f *FT) composite(cl *ast.CompositeLit, env *Env) (Val, error) {
	if at, isArr := cl.Type.(*ast.ArrayType); isArr && at.Len == nil {
		lk := f.kindOfType(cl.Type)
		ek, isList := f.ps.Lists[lk]
		if lk == "hdrs" {
			ek, isList = "hdr", true
		}
		if !isList {
			return Val{}, f.errAt(cl, "slice literal of type %s", f.src(cl.Type))
		}
		var ts []string
		for _, el := range cl.Elts {
			if _, isKV := el.(*ast.KeyValueExpr); isKV {
				return Val{}, f.errAt(cl, "keyed slice literal")
			}
			v, err := f.expr(el, env, ek)
			if err != nil {
				return v, err
			}
			ts = append(ts, v.T)
		}
		return Val{T: "[" + strings.Join(ts, "; ") + "]", K: lk}, nil
	}
	var id *ast.Ident
	switch t := cl.Type.(type) {
	case *ast.Ident:
		id = t
	case *ast.SelectorExpr:
		id = t.Sel
	}
	ok := id != nil
	if !ok {
		return Val{}, f.errAt(cl, "composite literal of type %s", f.src(cl.Type))
	}
	cs, ok := f.ps.Composites[id.Name]
	if !ok {
		return Val{}, f.errAt(cl, "composite literal of type %s is not in the symbol table", id.Name)
	}
	given := map[string]ast.Expr{}
	for _, el := range cl.Elts {
		kv, ok := el.(*ast.KeyValueExpr)
		if !ok {
			return Val{}, f.errAt(cl, "positional composite literal")
		}
		given[kv.Key.(*ast.Ident).Name] = kv.Value
	}
	var args []string
	for _, fl := range cs.Fields {
		if ge, ok := given[fl.Name]; ok {
			v, err := f.expr(ge, env, fl.Kind)
			if err != nil {
				return v, err
			}
			args = append(args, v.T)
			delete(given, fl.Name)
		} else {
			z, err := f.zero(fl.Kind)
			if err != nil {
				return Val{}, err
			}
			args = append(args, z)
		}
	}
	for n := range given {
		return Val{}, f.errAt(cl, "field %s of %s is not in the symbol table", n, id.Name)
	}
	return Val{T: subst(cs.Coq, "", args), K: cs.Kind}, nil
}

// pair translates the two operands of a binary operator to a common kind.
func (f *FT) pair(x, y ast.Expr, env *Env, want Kind) (Val, Val, error) {
	l, err := f.expr(x, env, "")
	if err != nil {
		return l, l, err
	}
	r, err := f.expr(y, env, "")
	if err != nil {
		return l, r, err
	}
	soft := func(k Kind) bool { return k == "untyped" || k == "nil" }
	switch {
	case soft(l.K) && !soft(r.K):
		l, err = f.coerce(l, r.K, x)
	case soft(r.K) && !soft(l.K):
		r, err = f.coerce(r, l.K, y)
	case l.K == "untyped" && r.K == "untyped":
		k := want
		if k != "u64" && k != "i64" {
			k = "i64"
		}
		if l, err = f.coerce(l, k, x); err == nil {
			r, err = f.coerce(r, k, y)
		}
	case l.K != r.K:
		// one side may convert implicitly to the other (e.g. *VerifyError to error)
		if c, e2 := f.coerce(l, r.K, x); e2 == nil {
			l = c
		} else if c, e2 := f.coerce(r, l.K, y); e2 == nil {
			r = c
		} else {
			err = f.errAt(x, "operands of kinds %s and %s", l.K, r.K)
		}
	}
	return l, r, err
}

func isConstNonZero(v Val) bool {
	t := strings.TrimSuffix(strings.TrimPrefix(strings.TrimSuffix(v.T, "%Z"), "("), ")")
	if t == "" || strings.HasPrefix(t, "-") {
		return false
	}
	for _, c := range t {
		if c < '0' || c > '9' {
			return false
		}
	}
	return strings.Trim(t, "0") != ""
}

func (f *FT) binary(x *ast.BinaryExpr, env *Env, want Kind) (Val, error) {
	switch x.Op {
	case token.LAND, token.LOR:
		l, err := f.expr(x.X, env, "bool")
		if err != nil {
			return l, err
		}
		n := len(f.guards)
		r, err := f.expr(x.Y, env, "bool")
		if err != nil {
			return r, err
		}
		if len(f.guards) > n {
			return r, f.errAt(x.Y, "possibly panicking operand under a short-circuit operator")
		}
		op := "&&"
		if x.Op == token.LOR {
			op = "||"
		}
		return Val{T: "(" + paren(l.T) + " " + op + " " + paren(r.T) + ")", K: "bool"}, nil
	case token.EQL, token.NEQ, token.LSS, token.LEQ, token.GTR, token.GEQ:
		l, r, err := f.pair(x.X, x.Y, env, "")
		if err != nil {
			return l, err
		}
		neg := func(s string) string { return "negb " + s }
		var t string
		switch l.K {
		case "u64", "chain", "i64", "time":
			sc := ""
			if l.K == "i64" || l.K == "time" {
				sc = "%Z"
			}
			a, b := paren(l.T), paren(r.T)
			switch x.Op {
			case token.EQL:
				t = "(" + a + " =? " + b + ")" + sc
			case token.NEQ:
				t = neg("(" + a + " =? " + b + ")" + sc)
			case token.LSS:
				t = "(" + a + " <? " + b + ")" + sc
			case token.LEQ:
				t = "(" + a + " <=? " + b + ")" + sc
			case token.GTR:
				t = "(" + b + " <? " + a + ")" + sc
			case token.GEQ:
				t = "(" + b + " <=? " + a + ")" + sc
			}
			if l.K == "chain" && x.Op != token.EQL && x.Op != token.NEQ {
				return l, f.errAt(x, "ordering comparison of chain ids")
			}
		case "bool":
			switch x.Op {
			case token.EQL:
				t = "Bool.eqb " + paren(l.T) + " " + paren(r.T)
			case token.NEQ:
				t = neg("(Bool.eqb " + paren(l.T) + " " + paren(r.T) + ")")
			default:
				return l, f.errAt(x, "ordering comparison of booleans")
			}
		case "err":
			// only comparisons with nil are modelled (errors.Is would be needed otherwise)
			var other Val
			if isNilExpr(x.X) {
				other = r
			} else if isNilExpr(x.Y) {
				other = l
			} else {
				return l, f.errAt(x, "comparison of two error values with ==: %s", f.src(x))
			}
			t = subst(f.ps.ErrIsNil, "", []string{other.T})
			if x.Op == token.NEQ {
				t = neg(paren(t))
			} else if x.Op != token.EQL {
				return l, f.errAt(x, "ordering comparison of errors")
			}
		default:
			return l, f.errAt(x, "comparison of values of kind %s: %s", l.K, f.src(x))
		}
		return Val{T: t, K: "bool"}, nil
	case token.ADD, token.SUB, token.MUL, token.QUO:
		l, r, err := f.pair(x.X, x.Y, env, want)
		if err != nil {
			return l, err
		}
		a, b := paren(l.T), paren(r.T)
		switch l.K {
		case "u64":
			switch x.Op {
			case token.ADD:
				return Val{T: "wrap64 (" + a + " + " + b + ")", K: "u64"}, nil
			case token.SUB:
				return Val{T: "sub64 " + a + " " + b, K: "u64"}, nil
			case token.MUL:
				return Val{T: "wrap64 (" + a + " * " + b + ")", K: "u64"}, nil
			case token.QUO:
				if isConstNonZero(r) {
					return Val{T: "(" + a + " / " + b + ")", K: "u64"}, nil
				}
				n := f.fresh("q")
				f.guards = append(f.guards, guard{n, "gen_divu64 " + a + " " + b})
				return Val{T: n, K: "u64"}, nil
			}
		case "i64":
			switch x.Op {
			case token.ADD:
				return Val{T: "gen_wrapi64 (" + a + " + " + b + ")%Z", K: "i64"}, nil
			case token.SUB:
				return Val{T: "gen_wrapi64 (" + a + " - " + b + ")%Z", K: "i64"}, nil
			case token.MUL:
				return Val{T: "gen_wrapi64 (" + a + " * " + b + ")%Z", K: "i64"}, nil
			case token.QUO:
				if isConstNonZero(r) {
					return Val{T: "(Z.quot " + a + " " + b + ")", K: "i64"}, nil
				}
				n := f.fresh("q")
				f.guards = append(f.guards, guard{n, "gen_div64 " + a + " " + b})
				return Val{T: n, K: "i64"}, nil
			}
		}
		return l, f.errAt(x, "arithmetic on values of kind %s: %s", l.K, f.src(x))
	}
	return Val{}, f.errAt(x, "binary operator %s: %s", x.Op, f.src(x))
}

func isNilExpr(e ast.Expr) bool {
	id, ok := e.(*ast.Ident)
	return ok && id.Name == "nil"
}

// verbs returns, for a format string, the index of the argument consumed by %w (-1 if none).
func wrapArg(format string) int {
	arg := 0
	for i := 0; i < len(format); i++ {
		if format[i] != '%' {
			continue
		}
		i++
		if i < len(format) && format[i] == '%' {
			continue
		}
		for i < len(format) && strings.ContainsRune("+-# 0123456789.", rune(format[i])) {
			i++
		}
		if i < len(format) {
			if format[i] == 'w' {
				return arg
			}
			arg++
		}
	}
	return -1
}

func (f *FT) args(call *ast.CallExpr, env *Env, kinds []Kind) ([]Val, error) {
	var out []Val
	for i, a := range call.Args {
		k := ""
		if i < len(kinds) {
			k = kinds[i]
		}
		v, err := f.expr(a, env, k)
		if err != nil {
			return nil, err
		}
		out = append(out, v)
	}
	return out, nil
}

func (f *FT) opaqueErr(at ast.Node, what string) (Val, error) {
	if f.fs.OpaqueErr == "" {
		return Val{}, f.errAt(at, "%s creates an error that wraps no sentinel of the symbol table", what)
	}
	return Val{T: f.fs.OpaqueErr, K: "err"}, nil
}

func (f *FT) call(c *ast.CallExpr, env *Env, want Kind) (Val, error) {
	fun := c.Fun
	if ix, ok := fun.(*ast.IndexExpr); ok { // explicit instantiation f[H](...)
		fun = ix.X
	}
	path := f.norm(fun)
	if f.isDropped(path) {
		return Val{}, &lazyErr{fmt.Sprintf("value of the dropped call %s", path)}
	}
	if c.Ellipsis.IsValid() && path != "append" {
		return Val{}, f.errAt(c, "variadic call with ...: %s", f.src(c))
	}
	// conversions and builtins
	switch path {
	case "uint64":
		if in, ok := c.Args[0].(*ast.CallExpr); ok && f.norm(in.Fun) == "len" && len(in.Args) == 1 {
			// 0 <= len(x) <= MaxInt: uint64(len(x)) is the length itself
			v, err := f.expr(in.Args[0], env, "")
			if err != nil {
				return v, err
			}
			if v.K != "hdrs" {
				return v, f.errAt(c, "len of %s", v.K)
			}
			return Val{T: "N.of_nat (length " + paren(v.T) + ")", K: "u64"}, nil
		}
		v, err := f.expr(c.Args[0], env, "")
		if err != nil {
			return v, err
		}
		switch v.K {
		case "u64":
			return v, nil
		case "untyped":
			return f.coerce(v, "u64", c)
		case "i64":
			return Val{T: "gen_u64 " + paren(v.T), K: "u64"}, nil
		}
		return v, f.errAt(c, "conversion of %s to uint64", v.K)
	case "int", "int64", "time.Duration":
		v, err := f.expr(c.Args[0], env, "")
		if err != nil {
			return v, err
		}
		switch v.K {
		case "i64":
			return v, nil
		case "untyped":
			return f.coerce(v, "i64", c)
		case "u64":
			return Val{T: "gen_i64 " + paren(v.T), K: "i64"}, nil
		}
		return v, f.errAt(c, "conversion of %s to a signed integer", v.K)
	case "len":
		v, err := f.expr(c.Args[0], env, "")
		if err != nil {
			return v, err
		}
		if v.K != "hdrs" {
			return v, f.errAt(c, "len of %s", v.K)
		}
		return Val{T: "Z.of_nat (length " + paren(v.T) + ")", K: "i64"}, nil
	case "append":
		if len(c.Args) != 2 {
			return Val{}, f.errAt(c, "append with %d arguments", len(c.Args))
		}
		l, err := f.expr(c.Args[0], env, "")
		if err != nil {
			return l, err
		}
		ek, isList := f.ps.Lists[l.K]
		if l.K == "hdrs" {
			ek, isList = "hdr", true
		}
		if !isList {
			return l, f.errAt(c, "append to a value of kind %s", l.K)
		}
		if c.Ellipsis.IsValid() {
			r, err := f.expr(c.Args[1], env, l.K)
			if err != nil {
				return r, err
			}
			return Val{T: "(" + paren(l.T) + " ++ " + paren(r.T) + ")", K: l.K}, nil
		}
		r, err := f.expr(c.Args[1], env, ek)
		if err != nil {
			return r, err
		}
		return Val{T: "(" + paren(l.T) + " ++ [" + r.T + "])", K: l.K}, nil
	case "make":
		mk := f.kindOfType(c.Args[0])
		if _, isList := f.ps.Lists[mk]; mk != "hdrs" && !isList {
			return Val{}, f.errAt(c, "make of %s", f.src(c.Args[0]))
		}
		// a length other than the constant 0 would create zero headers; capacity is evaluated for its panics only
		if len(c.Args) < 2 || f.norm(c.Args[1]) != "0" {
			return Val{}, f.errAt(c, "make with a non-zero length")
		}
		if len(c.Args) == 3 {
			// the capacity: a len(...) or a constant cannot be out of range; anything else
			// needs the allocation limit as an explicit argument ("@maxcap")
			capE := c.Args[2]
			isLen := false
			if in, ok := capE.(*ast.CallExpr); ok && f.norm(in.Fun) == "len" {
				isLen = true
			}
			if _, isLit := capE.(*ast.BasicLit); isLen || isLit {
				if _, err := f.expr(capE, env, "i64"); err != nil {
					return Val{}, err
				}
			} else {
				mc, ok := f.argByPath("@maxcap")
				if !ok {
					return Val{}, f.errAt(c, "make with a computed capacity and no allocation limit (@maxcap) in spec.json")
				}
				cv, err := f.expr(capE, env, "")
				if err != nil {
					return Val{}, err
				}
				switch cv.K {
				case "u64":
				case "i64":
					cv = Val{T: "gen_u64 " + paren(cv.T), K: "u64"} // a negative capacity panics as well: it is above every limit as a uint64
				default:
					return Val{}, f.errAt(c, "capacity of kind %s", cv.K)
				}
				f.guards = append(f.guards, guard{"_", "gen_capok " + mc.T + " " + paren(cv.T)})
			}
		}
		return Val{T: "[]", K: mk}, nil
	case "errors.Is":
		if f.ps.ErrorsIs == "" || len(c.Args) != 2 {
			return Val{}, f.errAt(c, "errors.Is is not in the symbol table")
		}
		a, err := f.expr(c.Args[0], env, "err")
		if err != nil {
			return a, err
		}
		b, err := f.expr(c.Args[1], env, "err")
		if err != nil {
			return b, err
		}
		return Val{T: subst(f.ps.ErrorsIs, "", []string{a.T, b.T}), K: "bool"}, nil
	case "errors.New":
		return f.opaqueErr(c, "errors.New")
	case "fmt.Errorf":
		lit, ok := c.Args[0].(*ast.BasicLit)
		if !ok {
			return Val{}, f.errAt(c, "fmt.Errorf with a non-literal format")
		}
		w := wrapArg(lit.Value)
		if w < 0 || w+1 >= len(c.Args) {
			return f.opaqueErr(c, "fmt.Errorf without %w")
		}
		return f.expr(c.Args[w+1], env, "err")
	case "time.Since":
		now, ok := f.argByPath("time.Now()")
		if !ok {
			return Val{}, &lazyErr{"time.Since with no clock argument in spec.json"}
		}
		v, err := f.expr(c.Args[0], env, "time")
		if err != nil {
			return v, err
		}
		return Val{T: "gen_sat64 (" + now.T + " - " + paren(v.T) + ")%Z", K: "i64"}, nil
	case "time.Now":
		return Val{}, &lazyErr{"time.Now with no clock argument in spec.json"}
	}
	// calls named by the symbol table (store lookups as oracle arguments, ...)
	if s, ok := f.ps.Calls[path]; ok {
		as, err := f.args(c, env, nil)
		if err != nil {
			// arguments such as ctx are opaque: pass placeholders for those that fail
			as = nil
			for _, a := range c.Args {
				v, err2 := f.expr(a, env, "")
				if err2 != nil {
					as = append(as, Val{T: "tt"})
				} else {
					if v.K == "untyped" {
						v, _ = f.coerce(v, "u64", a)
					}
					as = append(as, v)
				}
			}
		}
		var ts []string
		for _, a := range as {
			ts = append(ts, a.T)
		}
		return f.sym(s, "", ts), nil
	}
	// functions of the package
	switch fn := fun.(type) {
	case *ast.Ident:
		if env.lookup(fn.Name) != nil {
			return Val{}, f.errAt(c, "call of the function value %s", fn.Name)
		}
		return f.callFunc(c, fn.Name, false, env)
	case *ast.SelectorExpr:
		if id, ok := fn.X.(*ast.Ident); ok && f.recv != "" && id.Name == f.recv && env.lookup(id.Name) == nil {
			return f.callFunc(c, f.recvType+"."+fn.Sel.Name, true, env)
		}
		// a method of a translated value
		rv, err := f.expr(fn.X, env, "")
		if err != nil {
			return Val{}, f.errAt(c, "call of %s, which is not in the symbol table (receiver: %v)", path, err)
		}
		switch rv.K {
		case "hdr":
			s, ok := f.ps.Methods[fn.Sel.Name]
			if !ok {
				return Val{}, f.errAt(c, "header method %s is not in the symbol table", fn.Sel.Name)
			}
			as, err := f.args(c, env, nil)
			if err != nil {
				return Val{}, err
			}
			var ts []string
			for _, a := range as {
				ts = append(ts, a.T)
			}
			return f.sym(s, rv.T, ts), nil
		case "time":
			return f.timeMethod(c, fn.Sel.Name, rv, env)
		}
		return Val{}, f.errAt(c, "method %s on a value of kind %s", fn.Sel.Name, rv.K)
	}
	return Val{}, f.errAt(c, "call of %s", f.src(c.Fun))
}

func (f *FT) timeMethod(c *ast.CallExpr, name string, rv Val, env *Env) (Val, error) {
	t := paren(rv.T)
	one := func(k Kind) (string, error) {
		if len(c.Args) != 1 {
			return "", f.errAt(c, "arity of %s", name)
		}
		v, err := f.expr(c.Args[0], env, k)
		return paren(v.T), err
	}
	switch name {
	case "UTC", "Local", "Round", "Truncate":
		if name != "UTC" {
			break
		}
		return rv, nil
	case "Add":
		d, err := one("i64")
		return Val{T: "(" + t + " + " + d + ")%Z", K: "time"}, err
	case "Sub":
		u, err := one("time")
		return Val{T: "gen_sat64 (" + t + " - " + u + ")%Z", K: "i64"}, err
	case "Before":
		u, err := one("time")
		return Val{T: "(" + t + " <? " + u + ")%Z", K: "bool"}, err
	case "After":
		u, err := one("time")
		return Val{T: "(" + u + " <? " + t + ")%Z", K: "bool"}, err
	case "Equal":
		u, err := one("time")
		return Val{T: "(" + t + " =? " + u + ")%Z", K: "bool"}, err
	case "Compare":
		u, err := one("time")
		return Val{T: "gen_cmp " + t + " " + u, K: "i64"}, err
	}
	return Val{}, f.errAt(c, "time.Time method %s", name)
}

// callFunc: a call of another function of the package: by name when it is a
// translated function of spec.json, inlined otherwise.
func (f *FT) callFunc(c *ast.CallExpr, key string, onRecv bool, env *Env) (Val, error) {
	fd := f.pkg.funcs[key]
	if fd == nil {
		return Val{}, f.errAt(c, "call of %s, which is neither in the symbol table nor a function of the package", key)
	}
	// a translated function of the spec
	for i := range f.ps.Functions {
		cs := &f.ps.Functions[i]
		if cs.Go != key || !f.done[key] || cs == f.fs {
			continue
		}
		params := map[string]int{}
		n := 0
		for _, fl := range fd.Type.Params.List {
			for _, nm := range fl.Names {
				params[nm.Name] = n
				n++
			}
		}
		var ts []string
		ok := true
		for _, a := range cs.Args {
			if pi, isP := params[a.Go]; isP && pi < len(c.Args) {
				v, err := f.expr(c.Args[pi], env, a.Type)
				if err != nil {
					return v, err
				}
				ts = append(ts, paren(v.T))
				continue
			}
			found := false
			for _, mine := range f.fs.Args {
				if mine.Coq == a.Coq && mine.Type == a.Type {
					ts = append(ts, mine.Coq)
					found = true
				}
			}
			if !found {
				ok = false
			}
		}
		if !ok {
			break // fall back to inlining
		}
		var ks []Kind
		if fd.Type.Results != nil {
			for _, fl := range fd.Type.Results.List {
				m := len(fl.Names)
				if m == 0 {
					m = 1
				}
				for j := 0; j < m; j++ {
					ks = append(ks, f.kindOfType(fl.Type))
				}
			}
		}
		v := Val{T: "gen_" + cs.Name + " " + strings.Join(ts, " ")}
		if len(ks) == 1 {
			v.K = ks[0]
		} else {
			v.K = "tuple:" + strings.Join(ks, ",")
			v.Elems = ks
		}
		return v, nil
	}
	return f.inline(c, fd, onRecv, env)
}

func (f *FT) inline(c *ast.CallExpr, fd *ast.FuncDecl, onRecv bool, env *Env) (Val, error) {
	if f.inlining > 4 {
		return Val{}, f.errAt(c, "inlining depth (recursion?) at %s", fd.Name.Name)
	}
	if hasLoop(fd.Body) {
		return Val{}, f.errAt(c, "callee %s contains a loop and is not a translated function of spec.json", fd.Name.Name)
	}
	var ks []Kind
	if fd.Type.Results != nil {
		for _, fl := range fd.Type.Results.List {
			if len(fl.Names) > 0 {
				return Val{}, f.errAt(c, "callee %s has named results", fd.Name.Name)
			}
			ks = append(ks, f.kindOfType(fl.Type))
		}
	}
	if len(ks) == 0 {
		return Val{}, f.errAt(c, "call of %s, which returns nothing, in expression position", fd.Name.Name)
	}
	// bind the parameters
	cenv := &Env{vars: map[string]*Var{}}
	var lets []string
	i := 0
	for _, fl := range fd.Type.Params.List {
		k := f.kindOfType(fl.Type)
		for _, nm := range fl.Names {
			if i >= len(c.Args) {
				return Val{}, f.errAt(c, "arity of the call of %s", fd.Name.Name)
			}
			v, err := f.expr(c.Args[i], env, k)
			i++
			f.order++
			if err != nil {
				cenv = cenv.declare(&Var{Go: nm.Name, K: k, Poison: err.Error(), Order: f.order})
				continue
			}
			cn := f.fresh(nm.Name)
			lets = append(lets, fmt.Sprintf("let %s := %s in", cn, v.T))
			cenv = cenv.declare(&Var{Go: nm.Name, Coq: cn, K: k, Order: f.order})
		}
	}
	gs := f.guards
	f.guards = nil
	savedRecv, savedRet := f.recv, f.retKinds
	if onRecv && fd.Recv != nil && len(fd.Recv.List[0].Names) == 1 {
		f.recv = fd.Recv.List[0].Names[0].Name
	} else {
		f.recv = ""
	}
	f.retKinds = ks
	f.inlining++
	ictx := &Ctx{}
	ictx.onReturn = func(vals []Val) (string, error) {
		var ts []string
		for _, v := range vals {
			ts = append(ts, v.T)
		}
		return tupleTerm(ts), nil
	}
	ictx.onFall = func(*Env) (string, error) {
		return "", f.errAt(fd.Body, "control reaches the end of %s", fd.Name.Name)
	}
	body, err := f.stmts(fd.Body.List, cenv.push(), ictx)
	f.inlining--
	f.recv, f.retKinds = savedRecv, savedRet
	inner := f.guards
	f.guards = gs
	if err != nil {
		return Val{}, err
	}
	if len(inner) > 0 {
		return Val{}, f.errAt(c, "internal: pending guards after inlining")
	}
	v := Val{T: "(" + strings.Join(append(lets, body), "\n") + ")"}
	if len(ks) == 1 {
		v.K = ks[0]
	} else {
		v.K = "tuple:" + strings.Join(ks, ",")
		v.Elems = ks
	}
	return v, nil
}
