#!/usr/bin/env python3
"""Confirm a seeded mutation and run checks against it.

  tools/seed_eval.py confirm <mutdir>            # suite passes with patch, demo fails with / passes without
  tools/seed_eval.py check <mutdir> Cxx [Cyy..]  # run ./check Cxx quick against a scratch copy with the patch

<mutdir> holds patch.diff, demo_test.go (optional) and meta.json (demo_package_dir).
Scratch copies live under /tmp and are removed afterwards; /repo is never touched.
"""
import json, os, shutil, subprocess, sys, tempfile

GOENV = dict(os.environ)
GOENV["PATH"] = "/root/go/pkg/mod/golang.org/toolchain@v0.0.1-go1.25.7.linux-amd64/bin:" + GOENV["PATH"]
GOENV.update(GOTOOLCHAIN="local", GOFLAGS="-mod=mod", GOPROXY="off", GOSUMDB="off")


def sh(cmd, cwd, timeout=1800):
    p = subprocess.run(cmd, cwd=cwd, env=GOENV, shell=True, stdout=subprocess.PIPE, stderr=subprocess.STDOUT, text=True, timeout=timeout)
    return p.returncode, p.stdout


def scratch(patch=None):
    d = tempfile.mkdtemp(prefix="seedrepo_", dir="/tmp")
    shutil.rmtree(d)
    shutil.copytree("/repo", d, ignore=shutil.ignore_patterns(".git"))
    if patch:
        rc, out = sh("patch -p1 --no-backup-if-mismatch < %s" % patch, d)
        if rc != 0:
            shutil.rmtree(d)
            raise SystemExit("patch does not apply: " + out)
    return d


def failed_tests(out):
    return sorted({l.split()[2] for l in out.splitlines() if l.startswith("--- FAIL:")})


def demo_pattern(demo):
    import re
    names = re.findall(r"^func (Test\w+)\(", open(demo).read(), flags=re.M)
    return "^(" + "|".join(names) + ")$"


def confirm(mut):
    meta = json.load(open(os.path.join(mut, "meta.json")))
    patch = os.path.abspath(os.path.join(mut, "patch.diff"))
    demo = os.path.join(mut, "demo_test.go")
    pkg = meta.get("demo_package_dir", "").strip("/")
    res = {}
    d = scratch(patch)
    try:
        rc, out = sh("go build ./... && go test -vet=off -count=1 -timeout 20m ./... 2>&1 | tail -400", d)
        ft = [t for t in failed_tests(out) if t != "Test_syncHead"]
        # sleep/deadline based tests fail intermittently on a loaded machine, with and without any change:
        # a failed test counts only if it also fails when re-run on its own (3 attempts)
        still = []
        for t in ft:
            top = t.split("/")[0]
            ok_once = False
            for _ in range(3):
                rc2, out2 = sh("go test -vet=off -count=1 -timeout 10m -run '^%s$' ./... 2>&1 | tail -60" % top, d)
                if top not in failed_tests(out2) and t not in failed_tests(out2):
                    ok_once = True
                    break
            if not ok_once:
                still.append(t)
        res["suite_failed_first_run"] = ft
        ft = still
        res["suite_failed_tests_with_patch"] = ft
        res["suite_passes_with_patch"] = not ft and "build failed" not in out and "cannot" not in out.split("FAIL")[0][-200:]
        if os.path.exists(demo):
            shutil.copy(demo, os.path.join(d, pkg, "zz_demo_test.go"))
            rc, out = sh("go test -vet=off -count=1 -timeout 300s -run '%s' ./%s/ 2>&1 | tail -30" % (demo_pattern(demo), pkg), d)
            res["demo_fails_with_patch"] = rc != 0 or "FAIL" in out
            res["demo_out_with"] = out[-600:]
    finally:
        shutil.rmtree(d)
    if os.path.exists(demo):
        d = scratch(None)
        try:
            shutil.copy(demo, os.path.join(d, pkg, "zz_demo_test.go"))
            rc, out = sh("go test -vet=off -count=1 -timeout 300s -run '%s' ./%s/ 2>&1 | tail -30" % (demo_pattern(demo), pkg), d)
            res["demo_passes_without_patch"] = rc == 0 and "ok" in out and "no tests to run" not in out
            res["demo_out_without"] = out[-300:]
        finally:
            shutil.rmtree(d)
    print(json.dumps(res, indent=1))
    json.dump(res, open(os.path.join(mut, "confirm.json"), "w"), indent=1)
    return res


def check(mut, pids):
    patch = os.path.abspath(os.path.join(mut, "patch.diff"))
    outf = os.path.join(mut, "check_%s.json" % "_".join(pids))
    if os.path.exists(outf):
        os.remove(outf)
    try:
        d = scratch(patch)
    except SystemExit as ex:
        json.dump({"error": str(ex)[:300]}, open(outf, "w"), indent=1)
        raise
    out_all = {}
    try:
        shutil.copy("/repo/go.sum", os.path.join(d, "go.sum"))
        for pid in pids:
            env = dict(GOENV, VERIF_REPO=d)
            p = subprocess.run(["./check", pid, "quick"], cwd="/verif", env=env, stdout=subprocess.PIPE, stderr=subprocess.STDOUT, text=True, timeout=3600)
            lines = [l for l in p.stdout.splitlines() if l.startswith("VIOLATION") or l.startswith(pid)]
            out_all[pid] = {"rc": p.returncode, "lines": lines[:4]}
            print(pid, "rc=%d" % p.returncode, "; ".join(lines[:3])[:400])
    finally:
        shutil.rmtree(d)
    json.dump(out_all, open(os.path.join(mut, "check_%s.json" % "_".join(pids)), "w"), indent=1)
    return out_all


if __name__ == "__main__":
    if sys.argv[1] == "confirm":
        confirm(sys.argv[2])
    else:
        check(sys.argv[2], sys.argv[3:])
