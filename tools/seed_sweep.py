#!/usr/bin/env python3
"""Final sweep: every seeded change is applied to a scratch copy of /repo and its property's check
(plus the related checks listed below) is run through VERIF_REPO. Groups that share a build directory run
sequentially; different groups run in parallel. Results: seeded/<id>/final.json and seeded/SUMMARY.md."""
import concurrent.futures as cf, glob, json, os, subprocess, sys
ROOT = os.path.dirname(os.path.dirname(os.path.abspath(__file__)))
RELATED = {"C04": ["C04", "C08", "C14"], "C08": ["C08", "C04"], "C14": ["C14", "C08"], "C06": ["C06", "C04"], "C17": ["C17", "C04"],
           "C05": ["C05"], "C18": ["C18", "C13"], "C01": ["C01"], "C02": ["C02", "C01"]}
GROUP = {"C04": "store", "C08": "store", "C14": "store", "C06": "store", "C17": "store", "C01": "verify", "C02": "verify",
         "C05": "p2p", "C18": "p2p", "C13": "p2p", "C09": "c09", "C10": "c10", "C11": "c11", "C12": "c12", "C15": "c15", "C16": "c16", "C19": "c19", "C03": "sync", "C07": "sync"}
only = set(sys.argv[1:])
seeds = sorted(glob.glob(os.path.join(ROOT, "seeded", "*m[0-9]")))
groups = {}
for d in seeds:
    meta = json.load(open(os.path.join(d, "meta.json")))
    pid = os.path.basename(d).split("_")[0]
    if only and pid not in only:
        continue
    ids = os.environ.get("VERIF_SWEEP_IDS")
    if ids and os.path.basename(d) not in ids.split(","):
        continue
    groups.setdefault(GROUP.get(pid, pid), []).append((d, RELATED.get(pid, [pid])))

def run_group(items):
    out = []
    for d, pids in items:
        p = subprocess.run([sys.executable, os.path.join(ROOT, "tools", "seed_eval.py"), "check", d] + pids, cwd=ROOT, stdout=subprocess.PIPE, stderr=subprocess.STDOUT, text=True)
        f = os.path.join(d, "check_%s.json" % "_".join(pids))
        res = json.load(open(f)) if os.path.exists(f) else {"error": p.stdout[-500:]}
        json.dump(res, open(os.path.join(d, "final.json"), "w"), indent=1)
        out.append((os.path.basename(d), {k: v.get("rc") for k, v in res.items() if isinstance(v, dict)}))
        print(out[-1], flush=True)
    return out

with cf.ThreadPoolExecutor(max_workers=4) as ex:
    list(ex.map(run_group, groups.values()))
