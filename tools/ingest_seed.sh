#!/bin/bash
# usage: tools/ingest_seed.sh <Cxx> <tag e.g. r2m> [extra props...] : copies /tmp/wt_Cxx/_mut/{1,2,3} into seeded/, removes the worktree, confirms and checks
p=$1; tag=$2; shift 2
cd /verif
for k in 1 2 3; do d=seeded/${p}_${tag}$k; mkdir -p $d; cp /tmp/wt_$p/_mut/$k/patch.diff /tmp/wt_$p/_mut/$k/meta.json /tmp/wt_$p/_mut/$k/demo_test.go $d/ 2>/dev/null; done
git -C /repo worktree remove --force /tmp/wt_$p
for k in 1 2 3; do tools/seed_batch.sh seeded/${p}_${tag}$k $p "$@"; done
