#!/usr/bin/env python3
"""Regenerates MANIFEST.json from checks.json (single source for per-property texts)."""
import json, os, subprocess
ROOT = os.path.dirname(os.path.dirname(os.path.abspath(__file__)))
import glob
checks = json.load(open(os.path.join(ROOT, "checks.json")))
for _f in sorted(glob.glob(os.path.join(ROOT, "checks.d", "*.json"))):
    checks.update(json.load(open(_f)))
props = [json.loads(l) for l in open(os.path.join(ROOT, "properties.jsonl"))]
hook_commits = [l.split()[0] for l in subprocess.run(["git", "-C", "/repo", "log", "--format=%h %s"], capture_output=True, text=True).stdout.splitlines() if "verif hook" in l]
GOENV = "PATH=/root/go/pkg/mod/golang.org/toolchain@v0.0.1-go1.25.7.linux-amd64/bin:$PATH GOTOOLCHAIN=local GOFLAGS=-mod=mod GOPROXY=off GOSUMDB=off"
m = {
 "version": 1,
 "setup_cmd": "./check setup",
 "hooks": {
  "guard": "verif",
  "enable": "go build tag: the drivers are run with `go test -tags verif` (files *_verif.go in /repo carry `//go:build verif`)",
  "baseline_off_cmd": "cd /repo && " + GOENV + " go test -vet=off -count=1 -timeout 25m ./...",
  "source_commits": hook_commits,
  "add_only": True,
 },
 "engines": [
  {"name": "coq-proof", "path": "coq/theories", "serves_properties": sorted(checks), "kind_free_text": "Coq 8.16.1 development: Model/ (executable Gallina models), Proofs/, Props/ (property theorems closed by exact + Print Assumptions), Oracle/ (decidable property checkers and case types)"},
  {"name": "translated-tie", "path": "tools/go2coq", "serves_properties": sorted(p for p in checks if os.path.exists(os.path.join(ROOT, "coq", "tie", p + "_tie.v.in"))),
   "kind_free_text": "Go-to-Gallina translator (go/ast) regenerating the pure decision/arithmetic functions of coq/tie/spec.json from /repo's current source on every run; coq/tie/<Cxx>_tie.v.in proves each translated function equal to the hand-written model function for all inputs (tie_leg.py)"},
  {"name": "correspondence", "path": "harness", "serves_properties": sorted(checks), "kind_free_text": "Go drivers (build tag verif) run the real code from /repo in testing/synctest bubbles and emit cases_*.v; coqc evaluates model and oracle on them with vm_compute"},
 ],
 "checks": [],
 "notes": "See DESIGN.md. `./check <Cxx> quick|thorough`; evidence in evidence/<Cxx>.json; replays in replays/.",
 "not_applicable": [],
}
enabled = set(open(os.path.join(ROOT, "tools", "enabled.txt")).read().split())
for p in props:
    pid = p["id"]
    c = checks.get(pid)
    if not c or c.get("disabled") or pid not in enabled:
        m["not_applicable"].append({"property_id": pid, "reason": (c or {}).get("na_reason", "temporarily unclaimed: the check is being brought up to date with fix commits made to /repo in this round (model and proofs follow the repaired code); see DESIGN.md 11.5")})
        continue
    m["checks"].append({
        "property_id": pid,
        "quick_cmd": "./check %s quick" % pid,
        "thorough_cmd": "./check %s thorough" % pid,
        "evidence_file": "/verif/evidence/%s.json" % pid,
        "replay_cmd_template": "./check %s --replay {path}" % pid,
        "engine": "coq-proof",
        "level_claimed": {"category": "proof", "text": c.get("level_text", ""), "design_ref": c.get("design_ref", "DESIGN.md section 6/" + pid)},
        "level_note": c.get("level_note", ""),
        "technique": c.get("technique", "Coq theorems over a hand-written Gallina model + differential correspondence check (vm_compute) against the Go implementation"
                           + ("; the pure functions of this property are also translated from the current Go source on every run and proved equal to the model (tie theorems)" if os.path.exists(os.path.join(ROOT, "coq", "tie", pid + "_tie.v.in")) else "")),
    })
json.dump(m, open(os.path.join(ROOT, "MANIFEST.json"), "w"), indent=1)
print("checks:", [c["property_id"] for c in m["checks"]], "n/a:", len(m["not_applicable"]))
