(** SEARCH AID, NOT A PROOF, not part of any check or evidence.
    Extracts Model/Syncer.v to OCaml for the exhaustive small-scope exploration
    in explore.ml (which found findings F23/F24's relatives and suggested that
    C07_reaches_target holds once syncStore.Append is atomic).  The theorem is
    proved in Proofs/SyncerLiveP.v independently of this.
    Extraction directives: ExtrOcamlBasic only (bool, list, option, prod, unit to
    OCaml's; N / positive / Z / nat stay as extracted inductive types).
    Declares nothing (no Axiom / Parameter / Extract Constant).  See run.sh. *)
From Coq Require Import List ZArith NArith Extraction.
From GH Require Import Base.Prelude Model.Verify Model.Ranges Model.Syncer Proofs.SyncerP.
Require Import ExtrOcamlBasic.
Definition tvok (_ _ : hdr) : tvres := TVOk.
Definition xstep := step 10%Z tvok.
Definition xinit := init_cfg 17 [wch 17].
Definition xgossip (n : N) := EGossip (wch n) 100%Z (Bif [] false).
Definition xhead (n : N) := EHead (Some (wch n)).
Definition xanswer (from : N) (k : nat) := EL (GList (crun wch (from + 1) k)).
Definition xlocal := local_head.
Definition xall := ranges_all.
Definition n_of_int_nat := N.of_nat.
Definition nat_of_n := N.to_nat.
Definition xreqsize := req_size.
Definition xfinished := state_finished.
Extraction "syncer.ml" xstep xinit xgossip xhead xanswer xlocal xall n_of_int_nat nat_of_n xreqsize xfinished.
