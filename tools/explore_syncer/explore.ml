(* SEARCH AID, NOT A PROOF - see Ext.v / run.sh.  Exhaustive exploration of honest schedules of the extracted
   Model/Syncer.v over a small universe; reports quiescent states that are not "reached". *)
open Syncer

let rec int_of_pos = function XH -> 1 | XO p -> 2 * int_of_pos p | XI p -> 2 * int_of_pos p + 1
let int_of_n = function N0 -> 0 | Npos p -> int_of_pos p
let rec pos_of_int i = if i = 1 then XH else if i land 1 = 0 then XO (pos_of_int (i lsr 1)) else XI (pos_of_int (i lsr 1))
let n_of_int i = if i = 0 then N0 else Npos (pos_of_int i)
let rec nat_of_int i = if i = 0 then O else S (nat_of_int (i - 1))
let rec int_of_nat = function O -> 0 | S k -> 1 + int_of_nat k

let hh (h : hdr) = int_of_n h.h_height

(* flags *)
let atomic_shim = ref false      (* check + head-pointer update of syncStore.Append atomic *)
let atomic_append = ref false    (* the whole syncStore.Append atomic *)
let max_spawn = ref 3
let max_h = ref 21
let no_head = ref false
let no_gossip = ref false

let dedup_log (l : hdr list) =
  let seen = Hashtbl.create 16 in
  List.filter (fun h -> let k = hh h in if Hashtbl.mem seen k then false else (Hashtbl.add seen k (); true)) l

let norm (c : cfg) : cfg =
  { c with c_reqs = [];
           c_store = { c.c_store with rs_log = List.sort compare (dedup_log c.c_store.rs_log) };
           c_state = { c.c_state with ss_id = N0; ss_from = N0 } }

let rec nth_opt l i = match l with [] -> None | x :: r -> if i = 0 then Some x else nth_opt r (i - 1)

(* run the atomic parts *)
let rec settle_atomic (c : cfg) : cfg =
  let c' =
    if !atomic_shim || !atomic_append then begin
      (* loop *)
      let c1 = match c.c_loop with
        | LApp1 _ -> xstep c (EL GErr)
        | LApp2 _ when !atomic_append -> xstep c (EL GErr)
        | _ -> c in
      (* threads *)
      let rec go i c = match nth_opt c.c_thr i with
        | None -> c
        | Some (TRun (_, _, _, SL1 _, _)) -> go i (xstep c (ET (nat_of_int i)))
        | Some (TRun (_, _, _, SL2, _)) when !atomic_append -> go (i + 1) (xstep c (ET (nat_of_int i)))
        | Some _ -> go (i + 1) c in
      go 0 c1
    end else c in
  if c' == c then c else settle_atomic c'

type st = { c : cfg; sp : (char * int) list; ne : int }   (* ghost: what each learner call carries *)

let max_err = ref 0
let key (s : st) = Digest.string (Marshal.to_string (norm s.c, s.sp, s.ne) [Marshal.No_sharing])

let enabled (s : st) : (string * st) list =
  let c = s.c in
  let evs = ref [] in
  let add d e sp = evs := (d, { c = settle_atomic (xstep c e); sp; ne = s.ne }) :: !evs in
  (* threads *)
  List.iteri (fun i t ->
    match t with
    | TDone _ -> ()
    | TWait _ when c.c_mu -> ()
    | _ -> add (Printf.sprintf "T%d" i) (ET (nat_of_int i)) s.sp) c.c_thr;
  (* loop *)
  (match c.c_loop with
   | LIdle -> if c.c_trig then add "L" (EL GErr) s.sp
   | LPanic -> ()
   | LReq (_, from, to_) when hh from < int_of_n to_ ->
     let size = int_of_n (xreqsize from.h_height to_) in
     if s.ne < !max_err then evs := ("L:getter-error", { c = settle_atomic (xstep c (EL GErr)); sp = s.sp; ne = s.ne + 1 }) :: !evs;
     for k = 1 to size do
       add (Printf.sprintf "L:answer(%d..%d)" (hh from + 1) (hh from + k)) (xanswer from.h_height (nat_of_int k)) s.sp
     done
   | _ -> add "L" (EL GErr) s.sp);
  (* spawns *)
  if List.length s.sp < !max_spawn then
    for n = 18 to !max_h do
      if not !no_gossip then add (Printf.sprintf "gossip(%d)" n) (xgossip (n_of_int n)) (s.sp @ [('g', n)]);
      if not !no_head then add (Printf.sprintf "Head(%d)" n) (xhead (n_of_int n)) (s.sp @ [('h', n)])
    done;
  !evs

let quiescent (s : st) =
  let c = s.c in
  (match c.c_loop with LIdle -> not c.c_trig | _ -> false)
  && List.for_all (function TDone _ -> true | _ -> false) c.c_thr

let check (s : st) : string option =
  let c = s.c in
  let sh = int_of_n c.c_store.rs_head and ch = hh c.c_cache in
  let errs = ref [] in
  let err = c.c_state.ss_err <> None in
  if err && s.ne = 0 then errs := "State.Error set" :: !errs;
  if err && s.ne > 0 && xall c.c_pend = [] then errs := "State.Error persists with nothing pending" :: !errs;
  if not err && xall c.c_pend <> [] then errs := "pending not empty" :: !errs;
  if sh <> ch then errs := Printf.sprintf "shim head %d <> store head %d" ch sh :: !errs;
  if not err && hh (xlocal c) <> sh then errs := Printf.sprintf "Syncer.Head() %d <> store head %d" (hh (xlocal c)) sh :: !errs;
  if not err && not (xfinished c) then errs := Printf.sprintf "State not finished (to %d)" (int_of_n c.c_state.ss_to) :: !errs;
  List.iteri (fun i t -> match t, List.nth s.sp i with
    | TDone true, (_, n) when n > sh && not err -> errs := Printf.sprintf "accepted head %d above store head %d" n sh :: !errs
    | _ -> ()) c.c_thr;
  if !errs = [] then None else Some (String.concat "; " !errs)

let () =
  let args = Array.to_list Sys.argv in
  List.iter (fun a ->
    if a = "-atomic-shim" then atomic_shim := true
    else if a = "-atomic-append" then atomic_append := true
    else if a = "-no-head" then no_head := true
    else if a = "-no-gossip" then no_gossip := true
    else if String.length a > 3 && String.sub a 0 3 = "-e=" then max_err := int_of_string (String.sub a 3 (String.length a - 3))
    else if String.length a > 3 && String.sub a 0 3 = "-k=" then max_spawn := int_of_string (String.sub a 3 (String.length a - 3))
    else if String.length a > 3 && String.sub a 0 3 = "-h=" then max_h := int_of_string (String.sub a 3 (String.length a - 3))) args;
  let seen : (string, string * string) Hashtbl.t = Hashtbl.create 1000003 in
  let q = Queue.create () in
  let s0 = { c = xinit; sp = []; ne = 0 } in
  Hashtbl.add seen (key s0) ("", "");
  Queue.add s0 q;
  let nq = ref 0 and nbad = ref 0 in
  let classes = Hashtbl.create 16 in
  let trace k =
    let rec go k acc = match Hashtbl.find_opt seen k with
      | Some (p, d) when d <> "" -> go p (d :: acc)
      | _ -> acc in
    String.concat " " (go k []) in
  while not (Queue.is_empty q) do
    let s = Queue.pop q in
    let k = key s in
    if quiescent s then begin
      incr nq;
      match check s with
      | None -> ()
      | Some e ->
        incr nbad;
        (* classify by message with numbers removed *)
        let cls = String.map (fun ch -> if ch >= '0' && ch <= '9' then '#' else ch) e in
        if not (Hashtbl.mem classes cls) then begin
          Hashtbl.add classes cls 1;
          Printf.printf "DEFEAT [%s]\n  trace (%d events): %s\n%!" e (List.length (String.split_on_char ' ' (trace k))) (trace k)
        end else Hashtbl.replace classes cls (Hashtbl.find classes cls + 1)
    end;
    List.iter (fun (d, s') ->
      let k' = key s' in
      if not (Hashtbl.mem seen k') then begin
        Hashtbl.add seen k' (k, d);
        Queue.add s' q
      end) (enabled s)
  done;
  Printf.printf "states %d, quiescent %d, defeated %d\n" (Hashtbl.length seen) !nq !nbad;
  Hashtbl.iter (fun c n -> Printf.printf "  %6d  %s\n" n c) classes
