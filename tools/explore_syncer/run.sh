#!/bin/sh
# SEARCH AID, NOT A PROOF.  Builds the explorer in a scratch directory and runs it.
#   tools/explore_syncer/run.sh [-atomic-shim|-atomic-append] [-k=<learner calls>] [-h=<top height>] [-e=<getter errors>]
# -atomic-shim / -atomic-append: treat syncStore.Append's load-check-store (/ the whole Append) as one step
# (the code since /repo 40dc6a8 corresponds to -atomic-append; without a flag every program counter is a step:
# that finds the lost update F24 with 2 learner calls).
set -e
here=$(cd "$(dirname "$0")" && pwd)
w=$(mktemp -d /tmp/explore_syncer.XXXXXX)
cp "$here/Ext.v" "$here/explore.ml" "$w/"
cd "$w"
(ulimit -v 8000000; coqc -Q "$here/../../coq/theories" GH Ext.v >/dev/null)
rm -f syncer.mli
ocamlfind ocamlopt -w -a syncer.ml explore.ml -o explore
(ulimit -v 12000000; ./explore "$@")
rm -rf "$w"
