#!/usr/bin/env python3
"""tools/merge_copy.py <copy_dir> <base_commit> [--apply]: merge the files a builder changed in an isolated copy of /verif
back into /verif (3-way with `git merge-file` where /verif's file changed too). Without --apply only lists."""
import os, subprocess, sys, tempfile, shutil
copy, base = sys.argv[1], sys.argv[2]
apply = "--apply" in sys.argv
SPECIAL = {"coq/theories/Props/C06.v": "d012923", "coq/theories/Props/C18.v": "d012923", "checks.d/C06.json": "d012923", "checks.d/C18.json": "d012923"}
SKIP_DIRS = ("build", "replays", ".git", "evidence", "seeded")
SKIP_EXT = (".vo", ".vok", ".vos", ".glob", ".aux", ".d")
def show(commit, f):
    p = subprocess.run(["git", "-C", "/verif", "show", "%s:%s" % (commit, f)], capture_output=True)
    return p.stdout if p.returncode == 0 else None
for root, dirs, files in os.walk(copy):
    rel = os.path.relpath(root, copy)
    if rel.split(os.sep)[0] in SKIP_DIRS:
        dirs[:] = []
        continue
    for fn in files:
        if fn.endswith(SKIP_EXT) or fn.startswith(".") or fn in ("Makefile", "Makefile.conf", "_CoqProject", "go.sum"):
            continue
        f = os.path.normpath(os.path.join(rel, fn))
        c = open(os.path.join(copy, f), "rb").read()
        b = show(SPECIAL.get(f, base), f)
        if b is not None and b == c:
            continue
        dst = os.path.join("/verif", f)
        cur = open(dst, "rb").read() if os.path.exists(dst) else None
        if cur == c:
            continue
        if cur is None or cur == b:
            print("COPY ", f)
            if apply:
                os.makedirs(os.path.dirname(dst), exist_ok=True)
                shutil.copy(os.path.join(copy, f), dst)
        else:
            print("MERGE", f, "(new in copy, exists in /verif)" if b is None else "")
            if apply:
                with tempfile.NamedTemporaryFile(delete=False) as tb:
                    tb.write(b or b"")
                rc = subprocess.run(["git", "merge-file", dst, tb.name, os.path.join(copy, f)]).returncode
                os.unlink(tb.name)
                if rc != 0:
                    print("   CONFLICT markers left in", f, "rc", rc)
