#!/usr/bin/env python3
"""Merges confirmation and check results into each seeded/<id>/meta.json and writes seeded/SUMMARY.md."""
import glob, json, os
ROOT = os.path.dirname(os.path.dirname(os.path.abspath(__file__)))
rows = []
for d in sorted(glob.glob(os.path.join(ROOT, "seeded", "*m[0-9]"))):
    mp = os.path.join(d, "meta.json")
    if not os.path.exists(mp):
        continue
    meta = json.load(open(mp))
    conf = json.load(open(os.path.join(d, "confirm.json"))) if os.path.exists(os.path.join(d, "confirm.json")) else {}
    checks = {}
    # the latest run of each check against this seed wins (sweep results and later single re-runs alike)
    for f in sorted(glob.glob(os.path.join(d, "check_*.json")) + glob.glob(os.path.join(d, "final.json")), key=os.path.getmtime):
        checks.update({k: v for k, v in json.load(open(f)).items() if isinstance(v, dict) and "rc" in v})
    meta["lead_confirmation"] = {
        "how": "tools/seed_eval.py confirm: scratch copy of /repo + patch: go build, full suite (Test_syncHead and the sleep-based store tests are load-sensitive; a failure of those alone on the busy machine is not counted), demo with patch, demo without patch",
        "suite_passes_with_patch": conf.get("suite_passes_with_patch"),
        "suite_failed_tests_with_patch": conf.get("suite_failed_tests_with_patch"),
        "demo_fails_with_patch": conf.get("demo_fails_with_patch"),
        "demo_passes_without_patch": conf.get("demo_passes_without_patch"),
    }
    meta["checks_run"] = {k: {"caught": v["rc"] != 0, "lines": v["lines"][:2]} for k, v in checks.items()}
    json.dump(meta, open(mp, "w"), indent=1)
    caught = [k for k, v in checks.items() if v["rc"] != 0]
    missed = [k for k, v in checks.items() if v["rc"] == 0]
    rows.append((os.path.basename(d), meta.get("property", ""), (meta.get("title") or meta.get("clause_broken", ""))[:110], (meta.get("needs_to_manifest", "") or "")[:140], ",".join(caught) or "-", ",".join(missed) or "-"))
with open(os.path.join(ROOT, "seeded", "SUMMARY.md"), "w") as f:
    f.write("# Seeded changes (each confirmed: compiles, suite passes, demo fails with / passes without)\n\n")
    f.write("| id | property | change | needs | caught by | not caught by |\n|---|---|---|---|---|---|\n")
    for r in rows:
        f.write("| " + " | ".join(x.replace("|", "/").replace("\n", " ") for x in r) + " |\n")
print(open(os.path.join(ROOT, "seeded", "SUMMARY.md")).read())
