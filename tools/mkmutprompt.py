#!/usr/bin/env python3
"""tools/mkmutprompt.py Cxx <round-tag> : writes tools/prompts/mut/Cxx_<tag>.txt from the C01_r2 template and properties.jsonl."""
import json, sys, re
pid, tag = sys.argv[1], sys.argv[2]
props = {json.loads(l)["id"]: json.loads(l) for l in open("/verif/properties.jsonl")}
t = open("/verif/tools/prompts/mut/C01_r2.txt").read()
p0, p = props["C01"], props[pid]
t = t.replace("Title: " + p0["title"], "Title: " + p["title"])
t = t.replace("Statement: " + p0["statement"], "Statement: " + p["statement"])
t = t.replace("It must hold for: " + p0["quantifier"]["text"], "It must hold for: " + p["quantifier"]["text"])
t = t.replace("wt_C01", "wt_" + pid).replace('"C01"', '"%s"' % pid)
assert p["statement"] in t and p["quantifier"]["text"] in t
out = "/verif/tools/prompts/mut/%s_%s.txt" % (pid, tag)
open(out, "w").write(t)
print(out)
